// ---------------- assumed environment: the runtime as seen by tags and filters (stand-in; trusted) ----------------
/// per-render registers (interior mutability in the real code: effects are NOT modelled, see DESIGN C18)
pub trait RegisterDefault: Sized { }
#[verifier::external_body]
pub struct Registers { _p: u8 }
impl Registers {
    #[verifier::external_body]
    pub fn get_mut<T: RegisterDefault>(&self) -> (r: T) { unimplemented!() }
}
/// identity of a runtime (scope): which bindings a node is rendered under
#[verifier::external_body]
pub struct RtId { _p: u8 }
pub trait Runtime {
    spec fn ident(&self) -> RtId;
    /// the runtime has a layer that captures assignments and one that holds the counters below or at this scope, so that
    /// set_global / set_index never reach RuntimeCore's `unreachable!` (unit `stack`: proved unreachable exactly then;
    /// RuntimeBuilder::build establishes it, the four scope constructors preserve it)
    spec fn writable(&self) -> bool;
    fn registers(&self) -> &Registers;
}

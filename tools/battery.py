#!/usr/bin/env python3
"""Boundary battery: concrete inputs with the expectation the property statement dictates, run on the REAL code through
replay/.  Two uses (DESIGN.md §3.6):
  * witness search - when an obligation fails or a unit is undecided, the first battery input whose observable result
    contradicts the property is the failing input of the replay file;
  * bounded stand-in - for the functions a property depends on that are NOT under contract (For/TableRow::render_to glue,
    value_eq, CaseBlock::parse ...), labelled `bounded` in the evidence and never counted as proved.
Every expectation is computed here from the property statement (Python big integers, list slicing), not from the code.
"""
import itertools
import json

I64_MIN, I64_MAX = -(2 ** 63), 2 ** 63 - 1
THOROUGH = False      # set by battery(prop, thorough=True): the property's own, larger enumeration bounds
SEED = 0              # VERIF_SEED, for the random parts of the thorough tier


def fits(x):
    return I64_MIN <= x <= I64_MAX


def R(template, expect, data=None, partials=None, note=""):
    w = {"kind": "render", "template": template, "expect": expect}
    if data is not None:
        w["data"] = data
    if partials:
        w["partials"] = partials
    if note:
        w["note"] = note
    return w


def SAME(t1, t2, data=None, note=""):
    w = {"kind": "render_same", "templates": [t1, t2]}
    if data is not None:
        w["data"] = data
    if note:
        w["note"] = note
    return w


def b(x):
    return "true" if x else "false"


# --------------------------------------------------------------------------------------------- C05 loops
def window(seq, offset, limit, reversed_):
    n = len(seq)
    o = min(offset or 0, n)
    l = n - o if limit is None else min(limit, n - o)
    sel = seq[o:o + l]
    return list(reversed(sel)) if reversed_ else sel


FORBODY = "[{{x}}:{{forloop.index}}:{{forloop.index0}}:{{forloop.rindex}}:{{forloop.rindex0}}:{{forloop.first}}:{{forloop.last}}:{{forloop.length}}]"


def for_expected(sel):
    n = len(sel)
    if n == 0:
        return "EMPTY"
    return "".join(f"[{x}:{i + 1}:{i}:{n - i}:{n - i - 1}:{b(i == 0)}:{b(i == n - 1)}:{n}]" for i, x in enumerate(sel))


def c05():
    out = []
    M = I64_MAX
    out.append(R("{% for i in (9223372036854775805..9223372036854775807) %}{{ i }}/{{ forloop.length }}/{{ forloop.last }} {% endfor %}", {"output": f"{M-2}/3/false {M-1}/3/false {M}/3/true "}, {}, None, "a range ending at i64::MAX"))
    out.append(R("{% for i in (hi..hi) %}[{{ i }}]{% else %}none{% endfor %}", {"output": f"[{M}]"}, {"hi": M}, None, "the one-element range at i64::MAX"))
    out.append(R("{% tablerow i in (9223372036854775806..9223372036854775807) %}{{ i }}{% endtablerow %}", {"output": f'<tr class="row1"><td class="col1">{M-1}</td><td class="col2">{M}</td></tr>'}, {}, None, "tablerow over a range ending at i64::MAX"))
    for coll in ("blank", "empty", "nil", "b", "e", "n"):
        d = {"n": None}
        pre = "{% assign b = blank %}{% assign e = empty %}"
        out.append(R(pre + "{%% for x in %s %%}X{%% else %%}none{%% endfor %%}|{%% tablerow x in %s %%}X{%% endtablerow %%}|" % (coll, coll), {"output": "none||"}, d, None, "nil and the empty / blank states are empty collections"))
        out.append(R(pre + "{%% for o in (1..2) %%}{%% for x in %s limit: 2 offset: 1 reversed %%}X{%% else %%}-{%% endfor %%}{%% endfor %%}" % coll, {"output": "--"}, d, None, "nil / empty / blank inside an outer loop"))
    for n in range(0, 7 if THOROUGH else 5):
        arr = [10 * (k + 1) for k in range(n)]
        for offset in ((None,) + tuple(range(0, 9)) if THOROUGH else (None, 0, 1, 2, 5)):
            for limit in ((None,) + tuple(range(0, 9)) if THOROUGH else (None, 0, 1, 2, 5)):
                for rev in (False, True):
                    attrs = ""
                    if limit is not None:
                        attrs += f" limit:{limit}"
                    if offset is not None:
                        attrs += f" offset:{offset}"
                    if rev:
                        attrs += " reversed"
                    t = "{% for x in a" + attrs + " %}" + FORBODY + "{% else %}EMPTY{% endfor %}"
                    out.append(R(t, {"output": for_expected(window(arr, offset, limit, rev))}, {"a": arr}))
    # integer ranges, ascending, empty and descending bounds, variable bounds
    for lo, hi in ((1, 3), (2, 2), (3, 1), (0, 0), (-1, 1)):
        sel = list(range(lo, hi + 1))
        for rev in (False, True):
            t = "{% for x in (lo..hi)" + (" reversed" if rev else "") + " %}" + FORBODY + "{% else %}EMPTY{% endfor %}"
            out.append(R(t, {"output": for_expected(list(reversed(sel)) if rev else sel)}, {"lo": lo, "hi": hi}))
    # nil / missing collection runs the else branch
    out.append(R("{% for x in nothing %}x{% else %}EMPTY{% endfor %}", {"output": "EMPTY"}, {"nothing": None}))
    # tablerow
    for n in range(0, 5):
        arr = [10 * (k + 1) for k in range(n)]
        for cols in (None, 1, 2, 3):
            for offset, limit in ((None, None), (1, None), (None, 2), (1, 2)):
                sel = window(arr, offset, limit, False)
                attrs = ""
                if cols is not None:
                    attrs += f" cols:{cols}"
                if limit is not None:
                    attrs += f" limit:{limit}"
                if offset is not None:
                    attrs += f" offset:{offset}"
                body = "{{x}}:{{tablerow.index}}:{{tablerow.index0}}:{{tablerow.rindex}}:{{tablerow.rindex0}}:{{tablerow.first}}:{{tablerow.last}}:{{tablerow.length}}:{{tablerow.col}}:{{tablerow.col0}}:{{tablerow.col_first}}:{{tablerow.col_last}}"
                t = "{% tablerow x in a" + attrs + " %}" + body + "{% endtablerow %}"
                m = len(sel)
                c = cols if cols is not None else m
                exp = ""
                for i, x in enumerate(sel):
                    col = i % c
                    row = i // c
                    if col == 0:
                        exp += f'<tr class="row{row + 1}">'
                    exp += f'<td class="col{col + 1}">'
                    exp += f"{x}:{i + 1}:{i}:{m - i}:{m - i - 1}:{b(i == 0)}:{b(i == m - 1)}:{m}:{col + 1}:{col}:{b(col == 0)}:{b(col == c - 1 or i == m - 1)}"
                    exp += "</td>"
                    if col == c - 1 or i == m - 1:
                        exp += "</tr>"
                out.append(R(t, {"output": exp}, {"a": arr}))
    # break / continue at every index, two nesting levels; text after the loops must still be rendered
    for kind in ("break", "continue"):
        for K in (1, 2, 3):
            for n in (1, 2, 3):
                # inner interrupt
                t = ("{% for i in (1..2) %}<{% for j in (1..@N) %}{% if j == @K %}{% @T %}{% endif %}{{i}}{{j}}{% endfor %}>{% endfor %}done"
                     .replace("@N", str(n)).replace("@K", str(K)).replace("@T", kind))
                exp = ""
                for i in (1, 2):
                    exp += "<"
                    for j in range(1, n + 1):
                        if j == K:
                            if kind == "break":
                                break
                            continue
                        exp += f"{i}{j}"
                    exp += ">"
                exp += "done"
                out.append(R(t, {"output": exp}))
                # outer interrupt after the inner loop
                t = ("{% for i in (1..@N) %}{% for j in (1..2) %}{{i}}{{j}}{% endfor %}{% if i == @K %}{% @T %}{% endif %}.{% endfor %}done"
                     .replace("@N", str(n)).replace("@K", str(K)).replace("@T", kind))
                exp = ""
                for i in range(1, n + 1):
                    exp += f"{i}1{i}2"
                    if i == K:
                        if kind == "break":
                            break
                        continue
                    exp += "."
                exp += "done"
                out.append(R(t, {"output": exp}))
    # parentloop
    out.append(R("{% for i in (1..2) %}{% for j in (1..2) %}{{forloop.parentloop.index}}{{forloop.index}} {% endfor %}{% endfor %}",
                 {"output": "11 12 21 22 "}))
    # single-key object
    out.append(R("{% for kv in o %}{{kv[0]}}={{kv[1]}};{{forloop.length}}{% endfor %}", {"output": "k=7;1"}, {"o": {"k": 7}}))
    return out


# --------------------------------------------------------------------------------------------- C06 conditionals
POOL = [("nil", None), ("t", True), ("f", False), ("zero", 0), ("one", 1), ("onef", 1.0), ("two", 2), ("half", 0.5),
        ("es", ""), ("sa", "a"), ("sb", "b"), ("s1", "1"), ("ea", []), ("a1", [1]), ("a12", [1, 2]), ("o", {"k": 1})]
POOL_DATA = {k: v for k, v in POOL if k != "nil"}


def c06():
    out = []
    names = [k for k, _ in POOL]
    for x, y in itertools.product(names, names):
        # symmetry of ==, negation by !=, duality of < and >
        out.append(SAME("{% if X == Y %}1{% else %}0{% endif %}".replace("X", x).replace("Y", y),
                        "{% if Y == X %}1{% else %}0{% endif %}".replace("X", x).replace("Y", y), POOL_DATA, "== is symmetric"))
        out.append(SAME("{% if X != Y %}1{% else %}0{% endif %}".replace("X", x).replace("Y", y),
                        "{% unless X == Y %}1{% else %}0{% endunless %}".replace("X", x).replace("Y", y), POOL_DATA, "!= negates =="))
        out.append(SAME("{% if X < Y %}1{% else %}0{% endif %}".replace("X", x).replace("Y", y),
                        "{% if Y > X %}1{% else %}0{% endif %}".replace("X", x).replace("Y", y), POOL_DATA, "< and > are duals"))
        out.append(SAME("{% if X <= Y %}1{% else %}0{% endif %}".replace("X", x).replace("Y", y),
                        "{% if Y >= X %}1{% else %}0{% endif %}".replace("X", x).replace("Y", y), POOL_DATA, "<= and >= are duals"))
        # case/when agrees with ==
        out.append(SAME("{% if X == Y %}1{% else %}0{% endif %}".replace("X", x).replace("Y", y),
                        "{% case X %}{% when Y %}1{% else %}0{% endcase %}".replace("X", x).replace("Y", y), POOL_DATA, "case/when uses =="))
    # reflexivity, int/float equality, a few fixed points of the documented semantics
    for x in names:
        out.append(R("{% if X == X %}1{% else %}0{% endif %}".replace("X", x), {"output": "1"}, POOL_DATA, "== is reflexive"))
    out.append(R("{% if one == onef %}1{% else %}0{% endif %}", {"output": "1"}, POOL_DATA))
    out.append(R("{% if one < two %}1{% else %}0{% endif %}{% if two <= two %}1{% else %}0{% endif %}{% if two > one %}1{% else %}0{% endif %}{% if one >= two %}1{% else %}0{% endif %}", {"output": "1110"}, POOL_DATA))
    out.append(R("{% if sa contains 'a' %}1{% else %}0{% endif %}{% if a12 contains 2 %}1{% else %}0{% endif %}{% if a12 contains 3 %}1{% else %}0{% endif %}{% if o contains 'k' %}1{% else %}0{% endif %}", {"output": "1101"}, POOL_DATA))
    # contains: text containment / key membership / element equality (nil needles included); other kinds cannot contain
    cdata = {"s": "abc", "es": "", "an": [1, None, "a"], "a1": [1, 2], "ea": [], "o": {"k": 1, "1": 2}, "n": None, "one": 1, "two": 2, "sa": "a", "sk": "k", "sz": "z"}
    def _cref(a, b):
        def txt(v):
            return "" if v is None else ("true" if v is True else "false" if v is False else str(v))
        if a is None:
            return None
        if isinstance(a, (str, int, float)) and not isinstance(a, bool):
            return txt(b) in txt(a)
        if isinstance(a, dict):
            return (b is not None) and txt(b) in a
        if isinstance(a, list):
            return any((e is None and b is None) or (e is not None and b is not None and type(e) == type(b) and e == b) for e in a)
        return None
    for x in ("s", "es", "an", "a1", "ea", "o", "n", "one"):
        for y in ("n", "one", "two", "sa", "sk", "sz", "es", "nil"):
            exp = _cref(cdata[x], None if y == "nil" else cdata[y])
            t = "{% if X contains Y %}1{% else %}0{% endif %}".replace("X", x).replace("Y", y)
            out.append(R(t, {"error": True} if exp is None else {"output": "1" if exp else "0"}, cdata, "contains agrees with the value model"))
            if exp is not None:
                out.append(R("{% unless X contains Y %}1{% else %}0{% endunless %}".replace("X", x).replace("Y", y), {"output": "0" if exp else "1"}, cdata, "unless negates contains"))
    # truthiness: false only for nil and false (an undefined name counts as nil); 0, "", [] are true
    truth = {"nil": False, "t": True, "f": False, "zero": True, "one": True, "onef": True, "two": True, "half": True, "es": True,
             "sa": True, "sb": True, "s1": True, "ea": True, "a1": True, "a12": True, "o": True, "undefined_name": False}
    for x, tv in truth.items():
        out.append(R("{% if X %}T{% else %}F{% endif %}".replace("X", x), {"output": "T" if tv else "F"}, POOL_DATA, "Liquid truth"))
        out.append(R("{% unless X %}T{% else %}F{% endunless %}".replace("X", x), {"output": "F" if tv else "T"}, POOL_DATA, "unless negates if"))
    # if / elsif / else: the first arm whose condition holds
    for arms in (1, 2, 3, 4):
        for assign in itertools.product((True, False), repeat=arms):
            for with_else in (True, False):
                t = ""
                for k, v in enumerate(assign):
                    t += ("{% if " if k == 0 else "{% elsif ") + ("t" if v else "f") + " %}" + f"A{k}"
                if with_else:
                    t += "{% else %}E"
                t += "{% endif %}"
                exp = next((f"A{k}" for k, v in enumerate(assign) if v), "E" if with_else else "")
                out.append(R(t, {"output": exp}, POOL_DATA))
    # case / when: first matching arm; comma and `or` lists; duplicate and overlapping arms; arms with EMPTY bodies still win
    for target in (1, 2, 3):
        t = "{% case x %}{% when 1 %}A{% when 1, 2 %}B{% when 2 or 3 %}C{% else %}E{% endcase %}"
        exp = {1: "A", 2: "B", 3: "C"}[target]
        out.append(R(t, {"output": exp}, {"x": target}))
        t2 = "{% case x %}{% when 1 %}{% when 1 or 2 %}B{% else %}E{% endcase %}"
        out.append(R(t2, {"output": {1: "", 2: "B", 3: "E"}[target]}, {"x": target}, "an empty matching arm renders nothing, not a later arm"))
        t3 = "{% case x %}{% when 1 %}{% else %}E{% endcase %}|"
        out.append(R(t3, {"output": {1: "|", 2: "E|", 3: "E|"}[target]}, {"x": target}, "an empty matching arm beats else"))
    # anything between `case` and the first `when` is discarded, whichever arm fires
    for target in (1, 2, 3):
        t = "{% case x %} junk {% assign leaked = 'L' %}{% when 1 %}A{% when 2 %}B{% else %}E{% endcase %}[{% if leaked %}L{% else %}-{% endif %}]"
        out.append(R(t, {"output": {1: "A", 2: "B", 3: "E"}[target] + "[-]"}, {"x": target}, "content before the first when is not rendered"))
    # nil / empty string / empty array / blank string against the empty and blank literals, in every operand order, and in case/when
    eb = {"n": None, "es": "", "sp": " ", "ea": [], "eo": {}, "s": "a", "z": 0, "f": False, "nb": "\u00a0", "ideo": "\u3000 \u2003", "vt": "\x0b\t\n", "nbx": "\u00a0x"}
    exp_empty = {"n": True, "es": True, "sp": False, "ea": True, "eo": True, "s": False, "z": False, "f": False, "nb": False, "ideo": False, "vt": False, "nbx": False}
    exp_blank = {"n": True, "es": True, "sp": True, "ea": True, "eo": True, "s": False, "z": False, "f": True, "nb": True, "ideo": True, "vt": True, "nbx": False}
    for x in eb:
        for lit, table in (("empty", exp_empty), ("blank", exp_blank)):
            e = "1" if table[x] else "0"
            out.append(R("{% if X == L %}1{% else %}0{% endif %}{% if L == X %}1{% else %}0{% endif %}{% if X != L %}0{% else %}1{% endif %}".replace("X", x).replace("L", lit), {"output": e * 3}, eb, "comparison against " + lit))
            out.append(R("{% case X %}{% when L %}1{% else %}0{% endcase %}".replace("X", x).replace("L", lit), {"output": e}, eb, "case/when against " + lit))
    # `x or y and z` groups as `x or (y and z)`
    for x, y, z in itertools.product((True, False), repeat=3):
        t = "{% if X or Y and Z %}1{% else %}0{% endif %}".replace("X", "t" if x else "f").replace("Y", "t" if y else "f").replace("Z", "t" if z else "f")
        out.append(R(t, {"output": "1" if (x or (y and z)) else "0"}, POOL_DATA))
    return out


# --------------------------------------------------------------------------------------------- C07 paths and literals
def c07():
    out = []
    for n in range(0, 4):
        arr = [10 * (k + 1) for k in range(n)]
        for i in range(-n - 2, n + 2):
            ok = -n <= i < n
            exp = {"output": str(arr[i])} if ok else {"error": True}
            out.append(R("{{ a[%d] }}" % i, exp, {"a": arr}, "literal index"))
            out.append(R("{{ a[i] }}", exp, {"a": arr, "i": i}, "index through a variable"))
            out.append(R("{{ o.k[i] }}", exp, {"o": {"k": arr}, "i": i}, "nested path"))
        out.append(R("{{ a.first }}|{{ a.last }}|{{ a.size }}", {"output": f"{arr[0]}|{arr[-1]}|{n}"} if n else {"one_of": ["||0"]}, {"a": arr}) if n else
                   R("{{ a.size }}", {"output": "0"}, {"a": arr}))
    for s_ in ("", "abc", "héllo", "日本"):
        out.append(R("{{ s.size }}", {"output": str(len(s_))}, {"s": s_}, ".size of a string counts characters"))
    out += c07_paths()
    out.append(R("{{ o.missing }}", {"error": True}, {"o": {"k": 1}}))
    out.append(R("{{ missing }}", {"error": True}, {}))
    # the special member names are not variables: undefined `size` / `first` / `last` fail like any other undefined name,
    # at top level, inside a loop scope and inside an include, and a real variable of that name is found
    for nm in ("size", "first", "last"):
        out.append(R("{{ %s }}" % nm, {"error": True}, {"other": 1}))
        out.append(R("{%% for i in (1..2) %%}{{ %s }}{%% endfor %%}" % nm, {"error": True}, {"other": 1}))
        out.append(R("{%% for i in (1..2) %%}{{ i }}:{{ %s }} {%% endfor %%}" % nm, {"output": "1:XL 2:XL "}, {nm: "XL"}))
        out.append(R("{{ %s.size }}" % nm, {"error": True}, {}))
        out.append(R("{{ list[%s] }}" % nm, {"error": True}, {"list": [1, 2, 3]}))
        out.append(R("{%% include 'p' v: 1 %%}" , {"error": True}, {}, {"p": "{{ %s }}" % nm}))
    out.append(R("{{ o['k'] }}{{ o[key] }}", {"output": "11"}, {"o": {"k": 1}, "key": "k"}))
    for lit in (0, 1, -1, 42, I64_MAX, I64_MIN, I64_MAX - 1, I64_MIN + 1, 2 ** 31, -2 ** 31, 2 ** 53):
        out.append(R("{{ %d }}" % lit, {"output": str(lit)}, None, "integer literal prints as itself"))
    out.append(R("{{ 'a b' }}{{ \"c'd\" }}{{ true }}{{ false }}{{ nil }}", {"output": "a bc'dtruefalse"}))
    # strings in either quote style denote exactly what is between the quotes, including quote characters of the other style
    for body, q in (("'quoted'", '"'), ("dogs'", '"'), ("'", '"'), ("''", '"'), ('"x"', "'"), ('say "hi"', "'"), ('"', "'"), (" ' ", '"')):
        out.append(R("{{ %s%s%s }}" % (q, body, q), {"output": body}, None, "string literal keeps inner quote characters"))
        out.append(R("{{ o[%s%s%s] }}" % (q, body, q), {"output": "member"}, {"o": dict([(body.strip("'\""), "neighbour"), (body, "member")])}, "bracket key is the literal's exact text"))
    out.append(R("{{ 1.5 }}|{{ -0.25 }}", {"output": "1.5|-0.25"}))
    return out


# ---- C07: every path of length 1..3 (thorough: 4) over nested data whose keys collide with the special names ----
C07_DATA = {
    "o": {"size": "own", "first": "F", "k": [10, 20, 30], "7": "seven", "n": {"size": {"width": 3}, "last": [1, 2]}, "e": {}},
    "a": [{"size": 5, "v": [1, 2]}, [], "héllo", [[1], {"first": "f"}]],
}
_MISSING = object()


def _c07_step(v, k):
    """one path step by its meaning (the property's sentence); _MISSING when the step does not exist"""
    if isinstance(v, list):
        if isinstance(k, int):
            return v[k] if -len(v) <= k < len(v) else _MISSING
        if k == "first":
            return v[0] if v else _MISSING
        if k == "last":
            return v[-1] if v else _MISSING
        if k == "size":
            return len(v)
        return _MISSING
    if isinstance(v, dict):
        key = str(k)
        if key in v:
            return v[key]
        return len(v) if key == "size" else _MISSING
    if isinstance(v, str):
        return len(v) if k == "size" else _MISSING
    if isinstance(v, bool) or v is None:
        return _MISSING
    if isinstance(v, (int, float)):
        return len(str(v)) if k == "size" else _MISSING
    return _MISSING


def c07_paths():
    out = []
    steps = ["size", "first", "last", "k", "7", "n", "v", "e", "width", "zz", -4, -3, -2, -1, 0, 1, 2, 3]
    depth = 4 if THOROUGH else 3
    def fmt(root, path):
        t = root
        for k in path:
            t += ("[%d]" % k) if isinstance(k, int) else ("." + k if k.isalpha() else '["%s"]' % k)
        return t
    frontier = [(r, (), C07_DATA[r]) for r in ("o", "a")]
    for d in range(1, depth + 1):
        nxt = []
        for root, path, val in frontier:
            for k in steps:
                r = _c07_step(val, k)
                p2 = path + (k,)
                src = fmt(root, p2)
                if r is _MISSING:
                    out.append(R("{{ %s }}" % src, {"error": True}, C07_DATA, "a step that does not exist is an error"))
                elif isinstance(r, (list, dict)):
                    out.append(R("{%% if %s %%}T{%% endif %%}" % src, {"output": "T"}, C07_DATA, "the step exists"))
                    nxt.append((root, p2, r))
                else:
                    out.append(R("{{ %s }}" % src, {"output": str(r)}, C07_DATA, "path resolved step by step"))
                    if isinstance(r, str) and d < depth:
                        nxt.append((root, p2, r))
        frontier = nxt
    return out


# --------------------------------------------------------------------------------------------- C13 strings (slice, chain)
def slice_expected(seq, off, length):
    n = len(seq)
    if off < 0:
        off += n
        if off < 0:
            return seq[0:0]
    if off > n:
        off = n
    return seq[off:off + length]


def c13():
    out = []
    for s in ("", "a", "abc", "héllo", "日本語x", "ab cd"):
        for off in range(-7, 9):
            for ln in (None, 1, 2, 5):
                arg = f"{off}" + ("" if ln is None else f", {ln}")
                exp = slice_expected(s, off, 1 if ln is None else ln)
                out.append(R("{{ s | slice: %s }}" % arg, {"output": exp}, {"s": s}, "slice counts characters"))
    for arr in ([], [1], [1, 2, 3]):
        for off in range(-5, 6):
            for ln in (None, 1, 2):
                arg = f"{off}" + ("" if ln is None else f", {ln}")
                exp = "".join(str(x) for x in slice_expected(arr, off, 1 if ln is None else ln))
                out.append(R("{{ a | slice: %s | join: '' }}" % arg, {"output": exp}, {"a": arr}))
    # size counts characters
    for s_ in ("", "a", "héllo", "日本語x", "e\u0301"):
        out.append(R("{{ s | size }}", {"output": str(len(s_))}, {"s": s_}, "size counts characters"))
    # truncate: a string of at most `limit` characters is left alone; otherwise the result has at most max(limit, ellipsis) characters
    for s_ in ("", "abc", "ééé", "hello world", "日本語日本語", "ab cd ef"):
        for lim in (0, 1, 3, 4, 5, 8, 20):
            for ell in (None, "", "…", "--"):
                e = "..." if ell is None else ell
                arg = f"{lim}" + ("" if ell is None else ", e")
                if len(s_) <= lim:
                    exp = s_
                else:
                    exp = s_[:max(lim - len(e), 0)] + e
                out.append(R("{{ s | truncate: %s }}" % arg, {"output": exp}, {"s": s_, "e": ell}, "truncate counts characters"))
    out.append(R("{{ 'abc' | slice: 0, 0 }}", {"error": True}))
    out.append(R("{{ 'abc' | slice: 1, 9223372036854775807 }}", {"output": "bc"}))
    out.append(R("{{ 'abc' | slice: -9223372036854775808, 2 }}", {"output": ""}))
    # ---- reference semantics of the other string filters ("what their documentation says"), computed independently here
    alphabet = ["a", "B", " ", ",", "\n", "é"]
    strs = [""] + ["".join(t) for k in (1, 2, 3) for t in itertools.product(alphabet, repeat=k)]
    strs = strs[::3] + ["a,b,", ",", ",,", "a, b", " a b ", "\ta\r\n", "abcabc", "ÀÉ日本", "e\u0301x"]
    args = ["", "a", ",", " ", "é", "ab", "B,"]
    WS = " \t\n\r\x0b\x0c\x85\xa0\u1680\u2000\u2028\u2029\u202f\u205f\u3000"
    for s_ in strs:
        d = {"s": s_}
        out.append(R("{{ s | upcase }}", {"output": s_.upper()}, d))
        out.append(R("{{ s | downcase }}", {"output": s_.lower()}, d))
        out.append(R("{{ s | capitalize }}", {"output": (s_[:1].upper() + s_[1:])}, d))
        out.append(R("{{ s | strip }}|{{ s | lstrip }}|{{ s | rstrip }}", {"output": s_.strip(WS) + "|" + s_.lstrip(WS) + "|" + s_.rstrip(WS)}, d))
        out.append(SAME("{{ s | strip }}", "{{ s | rstrip | lstrip }}", d, "strip == lstrip after rstrip"))
        out.append(R("{{ s | strip_newlines }}", {"output": s_.replace("\n", "").replace("\r", "")}, d))
        out.append(R("{{ s | newline_to_br }}", {"output": s_.replace("\n", "<br />\n")}, d))
        out.append(R("{{ s | first }}|{{ s | last }}|{{ s | size }}", {"output": s_[:1] + "|" + s_[-1:] + "|" + str(len(s_))}, d))
        out.append(R("{{ s | default: 'D' }}", {"output": s_ if s_ != "" else "D"}, d))
        for a in args:
            da = {"s": s_, "a": a}
            out.append(R("{{ s | append: a }}|{{ s | prepend: a }}", {"output": s_ + a + "|" + a + s_}, da))
            out.append(R("{{ s | replace: a, 'XY' }}", {"output": s_.replace(a, "XY")}, da))
            out.append(R("{{ s | replace_first: a, 'XY' }}", {"output": s_.replace(a, "XY", 1)}, da))
            out.append(R("{{ s | remove: a }}", {"output": s_.replace(a, "")}, da))
            out.append(R("{{ s | remove_first: a }}", {"output": s_.replace(a, "", 1)}, da))
            if a != "" and s_ != "":
                parts = s_.split(a)
                out.append(R("{{ s | split: a | size }}", {"output": str(len(parts))}, da, "split keeps empty fields, also the trailing one"))
                out.append(R("{{ s | split: a | join: a }}", {"output": s_}, da, "split then join on the same separator is the identity"))
                out.append(R("{{ s | split: a | join: '|' }}", {"output": "|".join(parts)}, da))
    out.append(R("{{ '' | split: ',' | size }}", {"output": "0"}))
    for s_, n, exp in (("one two three four", 2, "one two..."), ("one two", 2, "one two"), ("one two three", 0, "..."), ("  a  b  ", 1, "a..."), ("", 3, "")):
        pass
    # the result of a chain is the left-to-right composition of its filters
    for chain in (("upcase", "append: 'x'"), ("append: 'x'", "upcase"), ("slice: 1, 2", "append: 'z'", "prepend: 'p'"), ("plus: 1", "times: 2"), ("times: 2", "plus: 1")):
        x = 3 if "plus" in chain[0] or "times" in chain[0] else "abcd"
        t1 = "{{ x | " + " | ".join(chain) + " }}"
        t2 = "{% assign t0 = x %}" + "".join("{%% assign t%d = t%d | %s %%}" % (k + 1, k, f) for k, f in enumerate(chain)) + "{{ t%d }}" % len(chain)
        out.append(SAME(t1, t2, {"x": x}, "chain == step-by-step composition"))
    return out


# --------------------------------------------------------------------------------------------- C15 arithmetic
BOUND = [0, 1, -1, 2, -2, 3, -3, 7, -7, 10, 2 ** 31, -2 ** 31, 2 ** 62, -2 ** 62, I64_MAX - 1, I64_MAX, I64_MIN, I64_MIN + 1]


def tdiv(a, d):
    q = abs(a) // abs(d)
    return q if (a >= 0) == (d > 0) else -q


def c15():
    out = []

    def num(x):
        return {"number": {"exact": str(x), "fits": fits(x)}}
    for a, o in itertools.product(BOUND, BOUND):
        data = {"a": a, "o": o}
        out.append(R("{{ a | plus: o }}", num(a + o), data))
        out.append(R("{{ a | minus: o }}", num(a - o), data))
        out.append(R("{{ a | times: o }}", num(a * o), data))
        out.append(R("{{ a | at_least: o }}", num(max(a, o)), data))
        out.append(R("{{ a | at_most: o }}", num(min(a, o)), data))
        if o == 0:
            out.append(R("{{ a | divided_by: o }}", {"error": True}, data))
            out.append(R("{{ a | modulo: o }}", {"error": True}, data))
        else:
            q = tdiv(a, o)
            out.append(R("{{ a | divided_by: o }}", num(q), data))
            out.append(R("{{ a | modulo: o }}", num(a - q * o) if fits(q) else {"one_of": ["0", "0.0", "-0.0"]}, data))
    for a in BOUND:
        out.append(R("{{ a | abs }}", num(abs(a)), {"a": a}))
        # numeric strings behave like the numbers they spell
        out.append(R("{{ s | abs }}", num(abs(a)), {"s": str(a)}))
        out.append(R("{{ s | plus: 1 }}", num(a + 1), {"s": str(a)}))
    if THOROUGH:
        import random
        rnd = random.Random(SEED)
        for _ in range(1500):
            a = rnd.choice(BOUND) if rnd.random() < 0.2 else rnd.randint(I64_MIN, I64_MAX)
            o = rnd.choice(BOUND) if rnd.random() < 0.2 else rnd.randint(I64_MIN, I64_MAX) // rnd.choice([1, 1, 2 ** 20, 2 ** 40, 2 ** 62])
            data = {"a": a, "o": o}
            out.append(R("{{ a | plus: o }}", num(a + o), data))
            out.append(R("{{ a | minus: o }}", num(a - o), data))
            out.append(R("{{ a | times: o }}", num(a * o), data))
            if o != 0:
                q = tdiv(a, o)
                out.append(R("{{ a | divided_by: o }}", num(q), data))
                if fits(q):
                    out.append(R("{{ a | modulo: o }}", num(a - q * o), data))
    # zero (and other numbers) spelled as strings, on the float paths too
    for zs, zv in (("0", 0.0), ("0.0", 0.0), ("-0.0", -0.0), ("0.5", 0.5), ("-2.5", -2.5), ("1e2", 100.0)):
        d = {"s": zs, "h": 1.5}
        import math as _mm
        def fl(v):   # Rust's Display of an f64: whole numbers print without a fraction, negative zero as -0
            v = float(v)
            if v == int(v):
                return "-0" if (v == 0 and _mm.copysign(1, v) < 0) else str(int(v))
            return repr(v)
        out.append(R("{{ s | plus: h }}", {"output": fl(zv + 1.5)}, d, None, "a numeric string is the number it spells (float path)"))
        out.append(R("{{ h | plus: s }}", {"output": fl(1.5 + zv)}, d, None, "a numeric string is the number it spells (float path)"))
        out.append(R("{{ s | times: 0.125 }}", {"one_of": [fl(zv * 0.125), fl(abs(zv * 0.125)) if zv * 0.125 == 0 else fl(zv * 0.125)]}, d, None, "numeric string times a float"))
        out.append(R("{{ s | at_least: 3 }}", {"output": "3"} if zv < 3 else {"output": fl(zv)}, d, None, "numeric string in at_least"))
        import math as _m
        if "e" not in zs:
            rnd = int(_m.floor(abs(zv) + 0.5)) * (1 if zv >= 0 else -1)
            out.append(R("{{ s | floor }}|{{ s | ceil }}|{{ s | round }}", {"output": f"{_m.floor(zv)}|{_m.ceil(zv)}|{rnd}"}, d, None, "numeric strings into floor/ceil/round"))
    import math
    for k in range(-40, 41):
        x = k / 8.0
        rnd = int(math.floor(abs(x) + 0.5)) * (1 if x >= 0 else -1)   # ties away from zero
        out.append(R("{{ x | floor }}|{{ x | ceil }}|{{ x | round }}", {"output": f"{math.floor(x)}|{math.ceil(x)}|{rnd}"}, {"x": x}))
    return out


# --------------------------------------------------------------------------------------------- C10 failing sinks
def c10():
    tpls = [
        ("Hello, world! plain text only", {}),
        ("hello {{ x }} and {{ y | upcase }} tail text", {"x": 5, "y": "abc"}),
        ("{% for i in (1..3) %}item {{ i }}, {% endfor %}after", {}),
        ("{% raw %}raw {{ text }}{% endraw %}{% increment c %}{% decrement c %}{% cycle 'one', 'two' %}{% cycle 'one', 'two' %}", {}),
        ("{% if x %}then branch{% else %}else branch{% endif %}{% unless x %}U{% endunless %}{% case x %}{% when 5 %}five{% else %}other{% endcase %}", {"x": 5}),
        ("{% tablerow i in (1..3) cols:2 %}cell {{ i }}{% endtablerow %}", {}),
        ("{% for i in (1..3) %}{% ifchanged %}{{ i | divided_by: 2 }}{% endifchanged %}{% endfor %}", {}),
        ("{% for i in (1..3) %}{% ifchanged %}<a long ifchanged body number {{ i }}>{% endifchanged %}{% endfor %}", {}),
        ("{% capture c %}captured {{ x }}{% endcapture %}{% assign a = c | upcase %}{{ a }}{{ c }}", {"x": 1}),
        # elements that write AFTER a child of theirs raised an interrupt (ifchanged flushes its buffer, tablerow closes the cell)
        ("{% for i in (1..3) %}{% ifchanged %}{{ i }}{% continue %}{% endifchanged %}tail{% endfor %}.", {}),
        ("{% for j in (1..2) %}{% tablerow i in (1..3) cols:2 %}c{{ i }}{% if i == 2 %}{% break %}{% endif %}{% endtablerow %}|{% endfor %}end", {}),
        ("{% for i in (1..4) %}{% if i == 2 %}{% continue %}{% endif %}{% if i == 4 %}{% break %}{% endif %}<{{ i }}>{% endfor %}done", {}),
        # one output tag that reaches the sink in several writes (an array prints element by element), nested arrays, objects
        ("[{{ items }}]{{ 'a,b,c' | split: ',' }}|{{ nested }}{{ o }}", {"items": ["x", "y", "z", "w"], "nested": [[1, 2], [3]], "o": {"k": "v"}}),
        # a long non-ASCII literal text (an error path that cuts the text by bytes would split a character)
        ("Στοιχείο καταλόγου αριθμός {{ x }} – ολοκληρώθηκε με επιτυχία, ευχαριστούμε πολύ", {"x": 1}),
        ("日本語のテキストがここに長く続きます、そして {{ x }} 最後まで", {"x": 2}),
    ]
    out = [{"kind": "sink_faults", "template": t, "data": d} for t, d in tpls]
    out.append({"kind": "sink_faults", "template": "before {% include 'p' %} middle {% render 'p' %} after", "data": {"x": 1}, "partials": {"p": "partial text {{ x }}"}})
    return out


# --------------------------------------------------------------------------------------------- C04 / C18 scoping
def c04():
    out = []
    # assign/capture persist for the rest of the render, whatever the nesting
    out.append(R("{% if true %}{% for i in (1..2) %}{% assign v = i %}{% endfor %}{% endif %}{{ v }}", {"output": "2"}))
    out.append(R("{% for i in (1..2) %}{% capture c %}<{{ i }}>{% endcapture %}{% endfor %}{{ c }}", {"output": "<2>"}))
    # a loop variable stops existing when its loop ends; it shadows assigned variables and caller data while it runs
    out.append(R("{% for x in (1..2) %}{{ x }}{% endfor %}{{ x }}", {"output": "12outer"}, {"x": "outer"}))
    out.append(R("{% assign x = 'assigned' %}{% for x in (1..2) %}{{ x }}{% endfor %}{{ x }}", {"output": "12assigned"}, {"x": "outer"}))
    out.append(R("{% for x in (1..1) %}{{ x }}{% endfor %}{{ x }}", {"error": True}, {}))
    # assigned shadows caller data; caller data shadows counters
    out.append(R("{{ x }}{% assign x = 'a' %}{{ x }}", {"output": "da"}, {"x": "d"}))
    out.append(R("{% increment x %}{{ x }}{% increment x %}", {"output": "0d1"}, {"x": "d"}))
    out.append(R("{% increment c %}{% increment c %}{{ c }}{% decrement c %}", {"output": "0121"}, {}))
    # capture binds exactly the text its body would have printed
    out.append(R("{% capture c %}a{{ 1 | plus: 1 }}b{% if true %}c{% endif %}{% endcapture %}[{{ c }}]", {"output": "[a2bc]"}))
    # ... including the empty text: a capture that prints nothing still (re)binds its name
    out.append(R("{% capture x %}{% endcapture %}[{{ x }}]", {"output": "[]"}, {"x": "d"}))
    out.append(R("{% assign x = 'a' %}{% capture x %}{% if false %}no{% endif %}{% endcapture %}[{{ x }}]", {"output": "[]"}, {}))
    out.append(R("{% for i in (1..2) %}{% capture acc %}{% if i == 1 %}one{% endif %}{% endcapture %}[{{ acc }}]{% endfor %}", {"output": "[one][]"}, {}))
    # include arguments shadow everything and are visible only inside
    out.append(R("{% assign v = 'outer' %}{% include 'p' v: 'arg' %}{{ v }}", {"output": "<arg>outer"}, {}, {"p": "<{{ v }}>"}))
    # ... also when the argument forwards a variable under its own name, and against assign / capture made INSIDE the partial
    out.append(R("{% include 'p' x: x %}|{{ x }}", {"output": "[data]|assigned"}, {"x": "data"}, {"p": "{% assign x = 'assigned' %}[{{ x }}]"}, "include arguments shadow variables the partial assigns"))
    out.append(R("{% assign x = 'outer' %}{% include 'p' x: x %}|{{ x }}", {"output": "[outer]|captured"}, {}, {"p": "{% capture x %}captured{% endcapture %}[{{ x }}]"}, "include arguments shadow variables the partial captures"))
    out.append(R("{% for x in (1..2) %}{% include 'p' x: x %}{% endfor %}", {"output": "[1][2]"}, {}, {"p": "{% assign x = 'assigned' %}[{{ x }}]"}, "a forwarded loop variable is still an argument"))
    out.append(R("{% include 'p' y: x %}|{{ y }}", {"output": "[data]|assigned"}, {"x": "data"}, {"p": "{% assign y = 'assigned' %}[{{ y }}]"}))
    # every argument value is evaluated in the caller's scope, not on top of the earlier arguments
    out.append(R("{% include 'p' x: 'A', y: x %}", {"output": "A|D"}, {"x": "D", "y": "E"}, {"p": "{{ x }}|{{ y }}"}, "a later argument reads the caller's binding"))
    out.append(R("{% include 'p' x: y, y: x %}", {"output": "E|D"}, {"x": "D", "y": "E"}, {"p": "{{ x }}|{{ y }}"}, "arguments can swap two caller variables"))
    out.append(R("{% include 'p' z: 'A', y: z %}", {"error": True}, {}, {"p": "{{ y }}"}, "an argument cannot name an earlier argument that is unbound at the call site"))
    out.append(R("{% for x in (1..2) %}{% include 'p' x: 'A', y: x %} {% endfor %}", {"output": "A|1 A|2 "}, {}, {"p": "{{ x }}|{{ y }}"}))
    # a global assignment that shadows an object hides the object's members
    out.append(R("{% assign user = 'anonymous' %}{% if user.name %}has-name{% else %}no-name{% endif %}", {"output": "no-name"}, {"user": {"name": "bob"}}))
    # counters are shared with rendered partials
    out.append(R("{% increment hits %}{% render 'tick' %}{% render 'tick' %}{% increment hits %}", {"output": "0123"}, {}, {"tick": "{% increment hits %}"}))
    return out


# ---- C04: small programs over a reused name alphabet against a reference interpreter of the scoping rules ----
class _Undefined(Exception):
    pass


def _c04_run(prog, data):
    """reference semantics: loop scopes > assigned (global) > caller data > counters; assign/capture bind for the rest of the
    render; a loop variable stops existing when its loop ends; output of an undefined name is an error"""
    glob, counters, scopes, out = {}, {}, [], []

    def lookup(n):
        for sc in reversed(scopes):
            if n in sc:
                return sc[n]
        if n in glob:
            return glob[n]
        if n in data:
            return data[n]
        if n in counters:
            return counters[n]
        raise _Undefined(n)

    def run(stmts, sink):
        for st in stmts:
            k = st[0]
            if k == "print":
                sink.append(str(lookup(st[1])))
            elif k == "assign_lit":
                glob[st[1]] = st[2]
            elif k == "assign_var":
                glob[st[1]] = lookup(st[2])
            elif k == "capture":
                buf = []
                run(st[2], buf)
                glob[st[1]] = "".join(buf)
            elif k == "incr":
                v = counters.get(st[1], 0)
                sink.append(str(v))
                counters[st[1]] = v + 1
            elif k == "decr":
                v = counters.get(st[1], 0) - 1
                counters[st[1]] = v
                sink.append(str(v))
            elif k == "for":
                for i in range(st[2], st[3] + 1):
                    scopes.append({st[1]: i})
                    run(st[4], sink)
                    scopes.pop()
            elif k == "text":
                sink.append(st[1])
    try:
        run(prog, out)
    except _Undefined:
        return None
    return "".join(out)


def _c04_src(stmts):
    t = ""
    for st in stmts:
        k = st[0]
        if k == "print":
            t += "{{ %s }}" % st[1]
        elif k == "assign_lit":
            t += "{%% assign %s = %s %%}" % (st[1], st[2] if isinstance(st[2], int) else "'%s'" % st[2])
        elif k == "assign_var":
            t += "{%% assign %s = %s %%}" % (st[1], st[2])
        elif k == "capture":
            t += "{%% capture %s %%}%s{%% endcapture %%}" % (st[1], _c04_src(st[2]))
        elif k == "incr":
            t += "{%% increment %s %%}" % st[1]
        elif k == "decr":
            t += "{%% decrement %s %%}" % st[1]
        elif k == "for":
            t += "{%% for %s in (%d..%d) %%}%s{%% endfor %%}" % (st[1], st[2], st[3], _c04_src(st[4]))
        elif k == "text":
            t += st[1]
    return t


def c04_programs():
    names = ("x", "y")
    leaf = []
    for n in names:
        leaf += [("print", n), ("assign_lit", n, 2), ("assign_lit", n, "a"), ("incr", n), ("decr", n)]
    leaf += [("assign_var", "x", "y"), ("assign_var", "y", "x"), ("assign_var", "x", "x")]
    bodies = [[a] for a in leaf] + [[a, b] for a in leaf[:8] for b in leaf[:2]] + [[("assign_var", "x", "x"), ("print", "x")]]
    blocks = []
    for n in names:
        for lo, hi in ((1, 2), (2, 2)):
            for body in bodies:
                blocks.append(("for", n, lo, hi, body))
        for body in bodies[:12]:
            blocks.append(("capture", n, [("text", "<")] + body + [("text", ">")]))
        # captures whose body prints nothing still bind (the empty string), and bodies without surrounding text
        for body in ([], [("assign_lit", "y", 2)], [("incr", "y")][:0] + [("assign_var", "y", "y")], [("print", "y")]):
            blocks.append(("capture", n, list(body)))
    progs = []
    tails = [[("print", "x")], [("print", "y")], [("print", "x"), ("incr", "x"), ("print", "x")]]
    for pre in [[]] + [[a] for a in leaf]:
        for blk in blocks:
            for tail in tails:
                progs.append(pre + [blk] + tail)
    # nested loops reusing the same name
    for inner in bodies[:10]:
        progs.append([("for", "x", 1, 2, [("for", "x", 3, 3, inner), ("print", "x")]), ("print", "x")])
    return progs


def c04_generated(limit=1500):
    if THOROUGH:
        limit = 6000
    out = []
    progs = c04_programs()
    step = max(1, len(progs) // limit)
    for prog in progs[::step]:
        for data in ({"x": "d"}, {}):
            exp = _c04_run(prog, data)
            out.append(R(_c04_src(prog), {"output": exp} if exp is not None else {"error": True}, data, "scoping reference interpreter"))
    return out


def c18(depth=2):
    return [{"kind": "stack_model", "depth": depth}] + c04()


# ---- C02: every stdlib filter x every input kind x every argument kind (arity <= 2): output or error, never a panic ----
FILTERS = {  # name: max arity
    "abs": 0, "append": 1, "at_least": 1, "at_most": 1, "capitalize": 0, "ceil": 0, "compact": 1, "concat": 1, "date": 1, "default": 1,
    "divided_by": 1, "downcase": 0, "escape": 0, "escape_once": 0, "first": 0, "floor": 0, "join": 1, "last": 0, "lstrip": 0, "map": 1,
    "minus": 1, "modulo": 1, "newline_to_br": 0, "plus": 1, "prepend": 1, "remove": 1, "remove_first": 1, "replace": 2, "replace_first": 2,
    "reverse": 0, "round": 1, "rstrip": 0, "size": 0, "slice": 2, "sort": 1, "sort_natural": 1, "split": 1, "strip": 0, "strip_html": 0,
    "strip_newlines": 0, "times": 1, "truncate": 2, "truncatewords": 2, "uniq": 0, "upcase": 0, "url_decode": 0, "url_encode": 0, "where": 2,
}
C02_POOL = {
    "nil": None, "t": True, "zero": 0, "neg": -3, "imax": I64_MAX, "imin": I64_MIN, "big": 10000, "m19": -19, "m64": -64, "half": 0.5, "tie": 2.5,
    "fneg": -1.5, "huge": 1e300, "es": "", "blank": "  ", "s": "hello world", "num": "42", "u1": "AT&T 日本語のテキスト", "u2": "Max & Zoë Größer &amp; <b>é</b>",
    "u3": "e\u0301\u0302x", "fmt": "%é %Y-%m-%d %", "pct": "%E9%zz+%", "ea": [], "mixed": [3, None, "x", 1.5, [1], {"k": 1}], "ints": [3, 1, 2],
    "objs": [{"k": 2}, {"k": None}, {"j": 1}], "o": {"k": 1}, "d": "2020-02-29 23:59:59 +0000",
}


def c02_filters():
    out = []
    names = list(C02_POOL)
    argnames = ["nil", "zero", "neg", "imax", "imin", "m19", "m64", "half", "es", "s", "u1", "fmt", "ea", "o"]
    for f, ar in FILTERS.items():
        for x in names:
            out.append(R("{{ %s | %s }}" % (x, f), {"no_panic": True}, C02_POOL))
            if ar >= 1:
                for a in argnames:
                    out.append(R("{{ %s | %s: %s }}" % (x, f, a), {"no_panic": True}, C02_POOL))
            if ar >= 2:
                for a, b2 in (("neg", "imax"), ("imin", "imin"), ("imin", "imax"), ("m19", "imax"), ("zero", "zero"), ("s", "u1"), ("es", "es"), ("nil", "neg"), ("imax", "u3"), ("m64", "half")):
                    out.append(R("{{ %s | %s: %s, %s }}" % (x, f, a, b2), {"no_panic": True}, C02_POOL))
    # tags and blocks with stressed parameters
    for a in ("zero", "neg", "imax", "imin", "half", "es", "s", "nil", "ea", "o"):
        out.append(R("{%% for x in ints limit:%s offset:%s %%}{{x}}{%% endfor %%}" % (a, a), {"no_panic": True}, C02_POOL))
        out.append(R("{%% tablerow x in ints cols:%s limit:%s offset:%s %%}{{x}}{%% endtablerow %%}" % (a, a, a), {"no_panic": True}, C02_POOL))
        if a not in ("imin", "imax"):   # the property excludes ranges wider than 10^4 (materialised eagerly)
            out.append(R("{%% for x in (%s..%s) %%}.{%% endfor %%}" % (a, "zero"), {"no_panic": True}, C02_POOL))
        out.append(R("{%% for x in %s %%}{{x}}{%% endfor %%}{%% cycle %s, %s %%}{{ mixed[%s] }}" % (a, a, a, a), {"no_panic": True}, C02_POOL))
    return out


def c04_all():
    return c04() + c04_generated() + [{"kind": "stack_model", "depth": 2}]


# ---- C08: include shares the caller's scope, render isolates the partial (reference interpreter) ----
class _Brk(Exception):
    def __init__(self, kind):
        self.kind = kind


def _c08_run(main, partials, data):
    counters = {}

    class Ctx:
        def __init__(self, scopes, glob, data, isolated):
            self.scopes, self.glob, self.data, self.isolated = scopes, glob, data, isolated

        def lookup(self, n):
            for sc in reversed(self.scopes):
                if n in sc:
                    return sc[n]
            if n in self.glob:
                return self.glob[n]
            if n in self.data:
                return self.data[n]
            if not self.isolated and n in counters:
                return counters[n]
            raise _Undefined(n)

    def val(ctx, e):
        return ctx.lookup(e[1]) if e[0] == "var" else e[1]

    def run(stmts, ctx, sink):
        """returns the pending interrupt (None / 'break' / 'continue') - a template stops at the first interrupt"""
        for st in stmts:
            k = st[0]
            if k == "print":
                sink.append(str(ctx.lookup(st[1])))
            elif k == "text":
                sink.append(st[1])
            elif k == "assign":
                ctx.glob[st[1]] = val(ctx, st[2])
            elif k == "incr":
                v = counters.get(st[1], 0)
                sink.append(str(v))
                counters[st[1]] = v + 1
            elif k in ("break", "continue"):
                return k
            elif k == "for":
                for i in range(st[2], st[3] + 1):
                    ctx.scopes.append({st[1]: i})
                    intr = run(st[4], ctx, sink)
                    ctx.scopes.pop()
                    if intr == "break":
                        break
            elif k == "include":
                if st[1] not in partials:
                    raise _Undefined("partial")
                args = {a: val(ctx, e) for a, e in st[2]}
                ctx.scopes.append(args)
                intr = run(partials[st[1]], ctx, sink)
                ctx.scopes.pop()
                if intr:
                    return intr          # a break inside an included partial ends the caller's loop
            elif k == "render":
                if st[1] not in partials:
                    raise _Undefined("partial")
                args = {a: val(ctx, e) for a, e in st[2]}
                inner = Ctx([], {}, args, True)      # its own assignments may rebind the arguments
                run(partials[st[1]], inner, sink)   # neither assignments nor break/continue reach the caller
        return None
    out = []
    try:
        run(main, Ctx([], {}, dict(data), False), out)
    except _Undefined:
        return None
    return "".join(out)


def _c08_src(stmts):
    t = ""
    for st in stmts:
        k = st[0]
        e = lambda x: (x[1] if x[0] == "var" else (str(x[1]) if isinstance(x[1], int) else "'%s'" % x[1]))
        if k == "print":
            t += "{{ %s }}" % st[1]
        elif k == "text":
            t += st[1]
        elif k == "assign":
            t += "{%% assign %s = %s %%}" % (st[1], e(st[2]))
        elif k == "incr":
            t += "{%% increment %s %%}" % st[1]
        elif k in ("break", "continue"):
            t += "{%% %s %%}" % k
        elif k == "for":
            t += "{%% for %s in (%d..%d) %%}%s{%% endfor %%}" % (st[1], st[2], st[3], _c08_src(st[4]))
        elif k == "include":
            t += "{%% include '%s' %s %%}" % (st[1], ", ".join("%s: %s" % (a, e(x)) for a, x in st[2]))
        elif k == "render":
            t += "{%% render '%s'%s %%}" % (st[1], "".join(", %s: %s" % (a, e(x)) for a, x in st[2]))
    return t


def c08():
    out = []
    partial_bodies = {
        "show": [("text", "<"), ("print", "v"), ("text", ">")],
        "reads_x": [("text", "["), ("print", "x"), ("text", "]")],
        "assigns": [("assign", "x", ("lit", "set-by-partial")), ("text", "a")],
        "counts": [("incr", "c")],
        "breaks": [("text", "b"), ("break",), ("text", "NEVER")],
        "continues": [("text", "c"), ("continue",), ("text", "NEVER")],
        "shadow": [("print", "v"), ("assign", "v", ("lit", "inner")), ("print", "v")],
        "rebinds_x": [("assign", "x", ("lit", "inner")), ("text", "["), ("print", "x"), ("text", "]")],
    }
    srcs = {k: _c08_src(v) for k, v in partial_bodies.items()}
    callers = []
    for tag in ("include", "render"):
        for pname in partial_bodies:
            for args in ([], [("v", ("lit", "arg"))], [("v", ("var", "x"))], [("x", ("lit", 7))], [("x", ("var", "x"))]):
                call = (tag, pname, args)
                callers.append([call, ("text", "|"), ("print", "x")])
                callers.append([("assign", "x", ("lit", "A")), call, ("text", "|"), ("print", "x")])
                callers.append([("for", "i", 1, 3, [call, ("print", "i")]), ("text", "|"), ("print", "x")])
                callers.append([("for", "x", 1, 2, [call]), ("text", "|"), ("incr", "c"), ("print", "x")])
        # counters bumped by the caller: readable as a variable through include (the caller's scope), not through render
        for pname in ("reads_x", "counts", "show"):
            for args in ([], [("v", ("var", "x"))]):
                callers.append([("incr", "x"), (tag, pname, args), ("text", "|"), ("incr", "x")])
                callers.append([("incr", "c"), ("incr", "c"), (tag, pname, args), ("text", "|"), ("incr", "c")])
        callers.append([(tag, "missing", [])])
        callers.append([("text", "before"), ("for", "i", 1, 2, [(tag, "missing", [])])])
    for prog in callers:
        for data in ({"x": "d"}, {}):
            exp = _c08_run(prog, partial_bodies, data)
            out.append(R(_c08_src(prog), {"output": exp} if exp is not None else {"error": True}, data, srcs, "include/render reference interpreter"))
    # render ... for: every element starts from the explicit arguments only - nothing survives from the previous element
    out.append(R("{% render 'acc' for (1..3) as v %}", {"output": "[fresh][fresh][fresh]"}, {}, {"acc": "{% if seen %}[stale:{{ seen }}]{% else %}[fresh]{% endif %}{% assign seen = v %}"}))
    out.append(R("{% render 'cap' for (1..2) as v %}", {"output": "<><>"}, {}, {"cap": "{% if c %}<stale>{% else %}<>{% endif %}{% capture c %}x{{ v }}{% endcapture %}"}))
    out.append(R("{% assign v = 'outer' %}{% include 'set' a: 1 %}{{ v }}", {"output": "inner"}, {}, {"set": "{% assign v = 'inner' %}"}, "assignments made by an included partial reach the caller, with or without arguments"))
    out.append(R("{% include 'cap2' a: 1 %}[{{ c }}]", {"output": "[x]"}, {}, {"cap2": "{% capture c %}x{% endcapture %}"}))
    # a partial that does not parse fails only when it is used
    out.append(R("ok{% if false %}{% include 'broken' %}{% endif %}", {"output": "ok"}, {}, {"broken": "{% if %}"}))
    out.append(R("{% include 'broken' %}", {"error": True}, {}, {"broken": "{% if %}"}))
    out.append(R("{% render 'broken' %}", {"error": True}, {}, {"broken": "{% if %}"}))
    # render ... with / for
    out.append(R("{% render 'show' with 'W' as v %}", {"output": "<W>"}, {}, srcs))
    # render ... with ... as: only the explicit argument exists inside; no forloop is invented for it (round 10)
    out.append(R("{% render 'wfl' with 'W' as v %}", {"output": "<W:n>"}, {}, {"wfl": "<{{ v }}:{% if forloop %}y{% else %}n{% endif %}>"}, "render-with starts from only its explicit arguments: no forloop inside"))
    out.append(R("{% render 'wfi' with 'W' as v %}", {"error": True}, {}, {"wfi": "{{ forloop.index }}"}, "forloop is an unknown variable inside render-with"))
    out.append(R("{% for o in (1..2) %}{% render 'wfl' with o as v %}{% endfor %}", {"output": "<1:n><2:n>"}, {}, {"wfl": "<{{ v }}:{% if forloop %}y{% else %}n{% endif %}>"}, "render-with inside a caller's loop sees neither the caller's nor an invented forloop"))
    out.append(R("{% render 'wfl', v: 'K' %}", {"output": "<K:n>"}, {}, {"wfl": "<{{ v }}:{% if forloop %}y{% else %}n{% endif %}>"}))
    out.append(R("{% render 'fl' for (1..3) as v %}", {"output": "1:1:3:true:false;2:2:3:false:false;3:3:3:false:true;"}, {},
                 {"fl": "{{ v }}:{{ forloop.index }}:{{ forloop.length }}:{{ forloop.first }}:{{ forloop.last }};"}))
    out.append(R("{% for o in (1..2) %}{% render 'pl' for (1..2) as v %}{% endfor %}", {"error": True}, {}, {"pl": "{{ forloop.parentloop.index }}"}, "the caller's loops are invisible inside render"))
    return out


# ---- C14: array filters against reference semantics (list operations) ----
def _show(xs):
    return "|".join("nil" if x is None else str(x) for x in xs)


SHOW = "{% for e in r %}{% if e == nil %}nil{% else %}{{ e }}{% endif %}{% unless forloop.last %}|{% endunless %}{% endfor %}"


def c14():
    out = []
    pools = [[1, 2, 2, None, 3], ["b", "a", None, "a"], [None, None], [5], []]
    arrays = []
    for pool in pools:
        for n in range(0, min(5, len(pool) + 1)):
            for comb in itertools.permutations(pool, n):
                arrays.append(list(comb))
    seen, uniq_arrays = set(), []
    for a in arrays:
        k = json.dumps(a)
        if k not in seen:
            seen.add(k)
            uniq_arrays.append(a)
    for a in uniq_arrays[:400]:
        d = {"a": a}
        nonnil = [x for x in a if x is not None]
        srt = sorted(nonnil) + [None] * (len(a) - len(nonnil))
        out.append(R("{% assign r = a | sort %}" + SHOW, {"output": _show(srt)}, d, "sort: non-decreasing, nil last, a permutation"))
        out.append(SAME("{% assign r = a | sort %}" + SHOW, "{% assign r = a | sort | sort %}" + SHOW, d, "sort is idempotent"))
        out.append(R("{% assign r = a | reverse %}" + SHOW, {"output": _show(list(reversed(a)))}, d))
        u = []
        for x in a:
            if x not in u:
                u.append(x)
        out.append(R("{% assign r = a | uniq %}" + SHOW, {"output": _show(u)}, d, "uniq keeps first occurrences in order"))
        out.append(R("{% assign r = a | compact %}" + SHOW, {"output": _show(nonnil)}, d, "compact removes exactly the nils"))
        out.append(R("{{ a | size }}|{{ a | concat: a | size }}", {"output": f"{len(a)}|{2 * len(a)}"}, d))
        out.append(R("{% assign r = a | concat: b %}" + SHOW, {"output": _show(a + [9, None])}, {"a": a, "b": [9, None]}))
        if a:
            out.append(R("{% if f == a[0] %}1{% endif %}{% if l == a[-1] %}1{% endif %}".replace("f ==", "first ==").replace("l ==", "last =="), {"no_panic": True}, d))
            out.append(SAME("{% assign r = a | first %}{% if r == nil %}nil{% else %}{{ r }}{% endif %}", "{% assign r = a[0] %}{% if r == nil %}nil{% else %}{{ r }}{% endif %}", d, "first agrees with indexing"))
            out.append(SAME("{% assign r = a | last %}{% if r == nil %}nil{% else %}{{ r }}{% endif %}", "{% assign r = a[-1] %}{% if r == nil %}nil{% else %}{{ r }}{% endif %}", d, "last agrees with indexing"))
        strs = ["" if x is None else str(x) for x in a]
        out.append(R("{{ a | join: ',' }}", {"output": ",".join(strs)}, d))
    for a, exp in (([1, 1.0, 2.0, 2, 1], 2), ([0, 0.0], 1), ([1, "1"], 2), ([1.5, 1.5, 2], 2)):
        out.append(R("{{ a | uniq | size }}", {"output": str(exp)}, {"a": a}, "uniq drops exactly the elements equal to an earlier kept one (an integer equals the float denoting the same number)"))
    # case-insensitive sort; strings differing only in case keep their relative order only up to the key
    for a in (["b", "A", "a", "C"], ["B", "b", None, "a"], ["x"], []):
        nonnil = [x for x in a if x is not None]
        keys = sorted(x.lower() for x in nonnil) + ["nil"] * (len(a) - len(nonnil))
        out.append(R("{% assign r = a | sort_natural %}{% for e in r %}{% if e == nil %}nil{% else %}{{ e | downcase }}{% endif %}{% unless forloop.last %}|{% endunless %}{% endfor %}",
                     {"output": "|".join(keys)}, {"a": a}, "sort_natural orders case-insensitively, nil last"))
    # objects: map / where / sort by property / compact by property; stability of sort
    objs = [{"k": 2, "t": "a"}, {"k": 1, "t": "b"}, {"k": 2, "t": "c"}, {"t": "d"}, {"k": None, "t": "e"}, {"k": 1, "t": "f"}, {"k": False, "t": "g"}]
    for n in range(0, 5):
        for comb in itertools.permutations(objs, n):
            o = list(comb)
            if len(out) > 9000:
                break
            d = {"o": o}
            has = [x for x in o if "k" in x]
            if not any(x.get("k") is False for x in o):     # (`false == nil` holds in Liquid, so SHOW cannot tell them apart)
                out.append(R("{% assign r = o | map: 'k' %}" + SHOW, {"output": _show([x["k"] for x in has])}, d, "map returns, in order, the property of the objects that have it"))
            out.append(R("{{ o | map: 'k' | size }}", {"output": str(len(has))}, d, "map keeps exactly the objects that have the property"))
            out.append(R("{{ o | where: 'k', 2 | map: 't' | join: '' }}", {"output": "".join(x["t"] for x in o if x.get("k") == 2 and x.get("k") is not False and not isinstance(x.get("k"), bool))}, d, "where keeps, in order, the objects whose property equals the target"))
            out.append(R("{{ o | where: 'k' | map: 't' | join: '' }}", {"output": "".join(x["t"] for x in o if x.get("k") not in (None, False))}, d, "where without target keeps the objects whose property is truthy"))
            out.append(R("{{ o | compact: 'k' | map: 't' | join: '' }}", {"output": "".join(x["t"] for x in o if x.get("k") is not None)}, d, "compact by property removes the objects whose property is nil or missing"))
            # an explicit nil target is a target: the objects that HAVE the property with a value equal to nil (false == nil in Liquid)
            out.append(R("{{ o | where: 'k', nil | map: 't' | join: '' }}", {"output": "".join(x["t"] for x in o if "k" in x and (x["k"] is None or x["k"] is False))}, d, "where with a nil target keeps the objects whose property equals nil"))
            out.append(R("{{ o | where: 'k', nothing | map: 't' | join: '' }}", {"output": "".join(x["t"] for x in o if "k" in x and (x["k"] is None or x["k"] is False))}, dict(d, nothing=None), "where with a nil-valued variable as target"))
            ints = [x for x in o if isinstance(x.get("k"), int) and not isinstance(x.get("k"), bool)]
            if len(ints) == len(o):
                st = sorted(o, key=lambda x: x["k"])
                out.append(R("{{ o | sort: 'k' | map: 't' | join: '' }}", {"output": "".join(x["t"] for x in st)}, d, "sort by property is stable"))
    # sort / sort_natural of a non-array: nil is the empty sequence, anything else a one-element sequence (a permutation of it)
    nd = {"f": False, "t": True, "es": "", "s": "x", "z": 0, "eo": {}, "o": {"k": 1}, "n": None}
    for x, n1 in (("f", 1), ("t", 1), ("es", 1), ("s", 1), ("z", 1), ("eo", 1), ("o", 1), ("n", 0)):
        for flt in ("sort", "sort_natural"):
            out.append(R("{{ %s | %s | size }}" % (x, flt), {"output": str(n1)}, nd, None, "sorting a non-array keeps it as the only element"))
    # property names that collide with the path overlay (size / first / last): map, where, sort read REAL members only
    sp = [{"name": "a", "size": "M"}, {"name": "b"}, {"name": "c", "size": "L", "first": 1}, {"name": "d", "colour": "x", "last": 2}, {}]
    for n in range(0, 4):
        for comb in itertools.permutations(sp, n):
            o = list(comb)
            for prop in ("size", "first", "last"):
                has = [x for x in o if prop in x]
                out.append(R("{{ o | map: '%s' | join: ',' }}|{{ o | map: '%s' | size }}" % (prop, prop), {"output": ",".join(str(x[prop]) for x in has) + "|" + str(len(has))}, {"o": o}, "map reads real members only"))
                out.append(R("{{ o | where: '%s' | size }}" % prop, {"output": str(len(has))}, {"o": o}, "where reads real members only"))
    # beyond the 20-element threshold where the standard sort switches algorithm: permutation, order, stability
    import random
    rnd = random.Random(7)
    for n in (21, 33, 60):
        o = [{"k": rnd.randrange(3), "id": i} for i in range(n)]
        st = sorted(o, key=lambda x: x["k"])
        out.append(R("{{ o | sort: 'k' | map: 'id' | join: ',' }}", {"output": ",".join(str(x["id"]) for x in st)}, {"o": o}, "sort by property is stable for long arrays too"))
        a = [rnd.randrange(10) if rnd.random() > 0.2 else None for _ in range(n)]
        nn = [x for x in a if x is not None]
        out.append(R("{% assign r = a | sort %}" + SHOW, {"output": _show(sorted(nn) + [None] * (n - len(nn)))}, {"a": a}, "sort of a long array: non-decreasing, nil last, a permutation"))
        out.append(R("{% assign r = a | uniq %}" + SHOW, {"output": _show(list(dict.fromkeys(a)))}, {"a": a}))
    return out


def c09():
    stateful = "{% assign a = x %}{% increment c %}{% cycle 'p', 'q', 'r' %}{% for i in (1..3) %}{% ifchanged %}{{ i | divided_by: 2 }}{% endifchanged %}{% if i == 2 %}{% break %}{% endif %}{% endfor %}{{ a }}{% capture k %}{{ a }}!{% endcapture %}{{ k }}{% decrement c %}"
    failing_midway = "{% increment c %}{% cycle 'p', 'q' %}{% for i in (1..3) %}{{ i }}{% if i == 2 %}{% break %}{{ missing }}{% endif %}{% endfor %}{% capture k %}{{ x | divided_by: 0 }}{% endcapture %}"
    with_partial = "{% include 'p' %}{% render 'p' %}{% increment c %}{{ v }}"
    tpls = [stateful, failing_midway, with_partial]
    datas = [{"x": 1}, {"x": "s", "v": "outer"}]
    partials = {"p": "{% assign v = 'set-by-partial' %}{% cycle 'a', 'b' %}{% increment c %}"}
    out = [{"kind": "render_history", "templates": tpls, "datas": datas, "length": 3, "partials": partials},
           {"kind": "render_history", "templates": tpls[:2], "datas": datas, "length": 5}]
    # state that must not outlive a render: the ifchanged memory (first content of a render == last content of the previous
    # one), a capture that fails after it has captured some text followed by another capture
    ifch = "{% for x in xs %}{% ifchanged %}<{{ x }}>{% endifchanged %}{% endfor %}"
    capfail = "{% capture c %}row {{ x }}: {{ missing }};{% endcapture %}[{{ c }}]"
    capok = "{% capture g %}Hello {{ x }}{% endcapture %}[{{ g }}]{% cycle 'u', 'v' %}"
    out.append({"kind": "render_history", "templates": [ifch, capfail, capok], "datas": [{"x": 1, "xs": [1, 1, 2, 2, 1]}, {"x": "s", "xs": [2, 1, 2]}], "length": 3})
    # a render_to whose sink fails must leave nothing behind either: histories that interleave failing-sink calls
    out.append({"kind": "render_history", "templates": ["{% for i in (1..3) %}{{ i }}:{{ x }} {% endfor %}{% increment c %}", capok], "datas": [{"x": "hello"}, {"x": "bye"}], "length": 3, "sink_faults": True})
    # partial names chosen through variables, partials whose names differ only by the `.liquid` suffix, under every compilation policy
    twins = {"row": "ROW", "row.liquid": "ROW-LIQUID", "home": "HOME", "about": "ABOUT{% increment n %}"}
    dyn = ["{% render page %}|{% include page %}", "{% include 'row' %}", "{% include 'row.liquid' %}", "{% render 'row' %}{% render 'row.liquid' %}"]
    ddat = [{"page": "home"}, {"page": "about"}, {"page": "missing"}]
    for policy in ("eager", "lazy", "ondemand"):
        out.append({"kind": "render_history", "templates": dyn, "datas": ddat, "length": 2, "partials": twins, "policy": policy})
    return out


def c11():
    out = [{"kind": "value_laws"}] + [w for w in c06() if w["kind"] == "render_same"]
    # equality seen through uniq / contains / case agrees with == (the outcome depends only on the values)
    names = [k for k, _ in POOL]
    vals = dict(POOL)
    pairs = {}
    for x, y in itertools.product(names, names):
        pairs[f"p_{x}_{y}"] = [vals[x], vals[y]]
    data = dict(POOL_DATA, **pairs)
    for x, y in itertools.product(names, names):
        pr = f"p_{x}_{y}"
        out.append(SAME("{% if X == Y %}1{% else %}2{% endif %}".replace("X", x).replace("Y", y), "{{ %s | uniq | size }}" % pr, data, "uniq collapses two elements exactly when they are =="))
        if vals[y] is not None and not isinstance(vals[y], (list, dict)):
            out.append(SAME("{% if X == Y %}1{% else %}0{% endif %}".replace("X", x).replace("Y", y),
                            "{%% assign tmp_first = %s | slice: 0, 1 %%}{%% if tmp_first contains Y %%}1{%% else %%}0{%% endif %%}".replace("Y", y) % pr, data, "array contains agrees with =="))
    return out


def c12():
    return [{"kind": "conversions"}]


BATTERIES = {"C14": c14, "C08": c08, "C09": c09, "C11": c11, "C12": c12, "C04": c04_all, "C05": c05, "C06": c06, "C07": c07, "C10": c10, "C13": c13, "C15": c15, "C18": c18}


def battery(prop, thorough=False):
    global THOROUGH, SEED
    THOROUGH = bool(thorough)
    import os
    SEED = int(os.environ.get("VERIF_SEED", "0") or 0)
    if prop == "C02":
        out = [R("{% tablerow x in a cols:0 %}{{x}}{% endtablerow %}", {"no_panic": True}, {"a": [1, 2]}),
               R("{% tablerow x in a cols:c %}{{x}}{% endtablerow %}", {"no_panic": True}, {"a": [1, 2], "c": 0}),
               R("{% tablerow x in a cols:c %}{{x}}{% endtablerow %}", {"no_panic": True}, {"a": [1, 2], "c": I64_MIN}),
               R("{% tablerow x in a cols:c %}{{x}}{% endtablerow %}", {"no_panic": True}, {"a": [1, 2], "c": -1}),
               R("{% cycle n: %}", {"no_panic": True}), R("{% for i in (1..3) %}{% cycle 'g': %}{% endfor %}", {"no_panic": True}),
               R("{{ 99999999999999999999 }}", {"no_panic": True}, None, "C01 territory (parse_literal); reported only if it panics at render"),
               R("{{ 'abc' | slice: 1, 9223372036854775807 }}", {"no_panic": True}),
               R("{{ a | first }}{{ a | last }}{{ a | size }}{{ a | join: ',' }}{{ a | sort | reverse | uniq | compact | join: ',' }}", {"no_panic": True}, {"a": [3, None, "x", 1.5, [1], {"k": 1}]})]
        out += c02_filters()
        for p, f in BATTERIES.items():
            for w in f():
                if w["kind"] == "render":
                    w = dict(w, expect={"no_panic": True})
                    out.append(w)
        return out
    if prop == "C18":
        return c18(3 if thorough else 2)
    f = BATTERIES.get(prop)
    return f() if f else []


if __name__ == "__main__":
    import sys
    p = sys.argv[1]
    json.dump(battery(p, "--thorough" in sys.argv), sys.stdout)

use vstd::prelude::*;
verus! {

// ---------- prelude: assumed environment ----------
pub assume_specification<T, F: FnOnce() -> Option<T>> [Option::<T>::or_else] (o: Option<T>, f: F) -> (r: Option<T>)
    requires o.is_none() ==> f.requires(()),
    ensures o.is_some() ==> r == o,
            o.is_none() ==> f.ensures((), r),
;

#[verifier::external_body]
pub struct Error { _p: u8 }
pub type Result<T> = core::result::Result<T, Error>;

pub enum Num { Int(i64), Flt(f64) }

#[verifier::external_body]
pub struct ScalarCow { _p: u8 }
impl ScalarCow {
    pub uninterp spec fn int_view(&self) -> Option<i64>;
    pub uninterp spec fn flt_view(&self) -> Option<f64>;
    #[verifier::external_body]
    pub fn to_integer(&self) -> (r: Option<i64>) ensures r == self.int_view() { unimplemented!() }
    #[verifier::external_body]
    pub fn to_float(&self) -> (r: Option<f64>) ensures r == self.flt_view() { unimplemented!() }
}

#[verifier::external_body]
pub struct Value { _p: u8 }
impl Value {
    pub uninterp spec fn num(&self) -> Num;
}
pub trait IntoScalar: Sized { spec fn as_num(self) -> Num; }
impl IntoScalar for i64 { open spec fn as_num(self) -> Num { Num::Int(self) } }
impl IntoScalar for f64 { open spec fn as_num(self) -> Num { Num::Flt(self) } }
impl Value {
    #[verifier::external_body]
    pub fn scalar<T: IntoScalar>(v: T) -> (r: Value) ensures r.num() == v.as_num() { unimplemented!() }
}

#[verifier::external_body]
pub fn invalid_input(cause: &str) -> Error { unimplemented!() }
#[verifier::external_body]
pub fn invalid_argument(argument: &str, cause: &str) -> Error { unimplemented!() }

pub struct DynValueView { pub sc: Option<ScalarCow> }
impl DynValueView {
    pub fn as_scalar(&self) -> (r: Option<&ScalarCow>) ensures r.is_some() == self.sc.is_some(), r.is_some() ==> *r.unwrap() == self.sc.unwrap() { self.sc.as_ref() }
}
pub struct EvaluatedPlusArgs { pub operand: DynValueView }

#[verifier::external_body]
pub fn fadd(a: f64, b: f64) -> f64 { a + b }
// ---------- extracted body (PlusFilter::evaluate, after args.evaluate) ----------
fn plus_evaluate(input: &DynValueView, args: EvaluatedPlusArgs) -> (res: Result<Value>)
    ensures
        res matches Ok(v) ==> (v.num() matches Num::Int(k) ==> (
            input.sc matches Some(a) && args.operand.sc matches Some(b) &&
            a.int_view() matches Some(i) && b.int_view() matches Some(o) && k == i + o)),
{
        let input = input
            .as_scalar()
            .ok_or_else(|| invalid_input("Number expected"))?;

        let operand = args
            .operand
            .as_scalar()
            .ok_or_else(|| invalid_argument("operand", "Number expected"))?;

        let result = input
            .to_integer()
            .and_then(|i: i64| -> (r: Option<Value>)
                ensures r matches Some(v) ==> (operand.int_view() matches Some(o) && v.num() == Num::Int((i + o) as i64) && i64::MIN <= i + o <= i64::MAX)
            { operand.to_integer().and_then(|o: i64| -> (c: Option<i64>) ensures c == (if i64::MIN <= i + o <= i64::MAX { Some((i + o) as i64) } else { None }) { i.checked_add(o) }).map(|x: i64| -> (v: Value) ensures v.num() == Num::Int(x) { Value::scalar(x) }) })
            .or_else(|| -> (r: Option<Value>)
                ensures r matches Some(v) ==> v.num() is Flt
            {
                input
                    .to_float()
                    .and_then(|i: f64| -> (r: Option<Value>) ensures r matches Some(v) ==> v.num() is Flt { operand.to_float().map(|o: f64| -> (v: Value) ensures v.num() is Flt { Value::scalar(fadd(i, o)) }) })
            })
            .ok_or_else(|| invalid_argument("operand", "Number expected"))?;

        Ok(result)
}

} // verus!
fn main() {}

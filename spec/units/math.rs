//@ unit math
//@ serves C15 C02
//@ include prelude/header.rs
use vstd::std_specs::ops::*;
use vstd::arithmetic::div_mod::*;
verus! {
//@ include prelude/std.rs
//@ include prelude/error.rs
//@ include prelude/runtime.rs
//@ include prelude/value.rs
//@ include prelude/float.rs

/// an evaluated filter argument (stand-in for ValueCow<'_>)
#[verifier::external_body]
pub struct ArgValue { _p: u8 }
impl ArgValue {
    pub uninterp spec fn scalar_of(&self) -> Option<ScalarCow>;
    #[verifier::external_body]
    pub fn as_scalar(&self) -> (r: Option<ScalarCow>) ensures r == self.scalar_of() { unimplemented!() }
}
pub assume_specification [i64::checked_abs] (i: i64) -> (r: Option<i64>)
    ensures r == (if i == i64::MIN { None::<i64> } else { Some((if i < 0 { -i } else { i as int }) as i64) });

pub open spec fn iabs(x: int) -> int { if x >= 0 { x } else { -x } }
pub open spec fn fits(x: int) -> bool { i64::MIN <= x <= i64::MAX }

/// Rust's `/` and `%` on signed integers (vstd's rust_div / rust_rem = truncation toward zero) satisfy the
/// property's law: dividend = quotient x divisor + remainder, |remainder| < |divisor|, remainder has the dividend's sign
proof fn lemma_euclid(x: int, b: int)
    requires b != 0
    ensures x == b * (x / b) + x % b, 0 <= x % b < iabs(b),
{
    assert(x == b * (x / b) + x % b && 0 <= x % b < (if b >= 0 { b } else { -b })) by (nonlinear_arith) requires b != 0;
}
proof fn lemma_trunc(a: int, b: int)
    requires b != 0
    ensures a == rust_div(a, b) * b + rust_rem(a, b),       // [C15:div_mod_law]
            iabs(rust_rem(a, b)) < iabs(b),                  // [C15:remainder_smaller_than_divisor]
            rust_rem(a, b) != 0 ==> ((rust_rem(a, b) > 0) == (a > 0)),
            iabs(rust_div(a, b)) <= iabs(a),
{
    let q = rust_div(a, b); let r = rust_rem(a, b);
    lemma_euclid(a, b); lemma_euclid(-a, b);
    if a >= 0 {
        assert(a == q * b + r) by (nonlinear_arith) requires a == b * q + r;
        assert(iabs(q) <= iabs(a)) by (nonlinear_arith) requires a == q * b + r, 0 <= r < iabs(b), b != 0, a >= 0;
    } else {
        assert(a == q * b + r) by (nonlinear_arith) requires -a == b * ((-a) / b) + (-a) % b, q == -((-a) / b), r == -((-a) % b);
        assert(iabs(q) <= iabs(a)) by (nonlinear_arith) requires a == q * b + r, -iabs(b) < r <= 0, b != 0, a < 0;
    }
}
proof fn lemma_div_fits(i: i64, o: i64)
    requires o != 0, !(i == i64::MIN && o == -1)
    ensures fits(rust_div(i as int, o as int)), fits(rust_rem(i as int, o as int)),
{
    let a = i as int; let b = o as int;
    lemma_trunc(a, b);
    let q = rust_div(a, b); let r = rust_rem(a, b);
    if a == i64::MIN as int && q == -(i64::MIN as int) {
        // q = 2^63 would force b == -1
        assert(false) by (nonlinear_arith)
            requires a == q * b + r, iabs(r) < iabs(b), a == -0x8000_0000_0000_0000int, q == 0x8000_0000_0000_0000int,
                     b != -1, b != 0, -0x8000_0000_0000_0000int <= b <= 0x7fff_ffff_ffff_ffffint;
    }
}


// ---------------- at_least ----------------
pub struct AtLeastArgs { pub e: u8 }
pub struct EvaluatedAtLeastArgs { pub min: ArgValue }
impl AtLeastArgs {
    #[verifier::external_body]
    pub fn evaluate(&self, runtime: &dyn Runtime) -> (r: Result<EvaluatedAtLeastArgs>)
        ensures r matches Ok(e) ==> at_least_arg(self, runtime) == Some(e.min),
                r is Err ==> at_least_arg(self, runtime) is None
    { unimplemented!() }
}
/// the evaluated operand the filter was called with (None: evaluating the argument expression failed)
pub uninterp spec fn at_least_arg(a: &AtLeastArgs, rt: &dyn Runtime) -> Option<ArgValue>;
pub struct AtLeastFilter { pub args: AtLeastArgs }
pub open spec fn at_least_ints(f: &AtLeastFilter, input: &dyn ValueView, rt: &dyn Runtime) -> Option<(int, int)> {
    match (input.scalar_of(), at_least_arg(&f.args, rt)) {
        (Some(a), Some(b)) => match (a.int_view(), b.scalar_of()) {
            (Some(i), Some(bs)) => match bs.int_view() { Some(o) => Some((i as int, o as int)), None => None },
            _ => None,
        },
        _ => None,
    }
}
pub open spec fn at_least_flts(f: &AtLeastFilter, input: &dyn ValueView, rt: &dyn Runtime) -> Option<(f64, f64)> {
    match (input.scalar_of(), at_least_arg(&f.args, rt)) {
        (Some(a), Some(b)) => match (a.flt_view(), b.scalar_of()) {
            (Some(i), Some(bs)) => match bs.flt_view() { Some(o) => Some((i, o)), None => None },
            _ => None,
        },
        _ => None,
    }
}
impl AtLeastFilter {
//@ item crates/lib/src/stdlib/filters/math.rs :: impl Filter for AtLeastFilter::evaluate
//@ props C15 C02
//@ safety C02 C15
//@ sig fn evaluate(&self, input: &dyn ValueView, runtime: &dyn Runtime) -> (res: Result<Value>)
//@ spec
    ensures
        res matches Ok(v) ==> v.num() is Some,
        // an integer result is the exact mathematical result of the two integer operands
        res matches Ok(v) ==> (v.num() matches Some(Num::Int(k)) ==>
            (at_least_ints(self, input, runtime) matches Some((i, o)) && k == (if i >= o { i } else { o }))),     // [C15:at_least_int_exact]
        // whenever both operands are integers and the result fits in 64 bits, the filter returns it
        at_least_ints(self, input, runtime) matches Some((i, o)) ==> (true ==>
            (res matches Ok(v) && v.num() == Some(Num::Int((if i >= o { i } else { o }) as i64)))),                         // [C15:at_least_int_when_fits]
        // a float result only arises from the float views of both operands (the float operation itself is not modelled)
        res matches Ok(v) ==> (v.num() matches Some(Num::Flt(x)) ==>
            (at_least_flts(self, input, runtime) is Some)),            // [C15:at_least_float_from_float_views]
//@ prologue
    broadcast use group_f64_total;
//@ closure 0 arg_of=ok_or_else params=
|| -> (e: Error)
//@ closure 1 arg_of=ok_or_else params=
|| -> (e: Error)
//@ closure 2 arg_of=and_then params=i
|i: i64| -> (r: Option<Value>)
    ensures min.int_view() is Some <==> r is Some,
            r matches Some(v) ==> (min.int_view() matches Some(o) && v.num() == Some(Num::Int(if i >= o { i } else { o })))
//@ closure 3 arg_of=map params=min
|min: i64| -> (v: Value) ensures v.num() == Some(Num::Int(if i >= min { i } else { min }))
//@ closure 4 arg_of=or_else params=
|| -> (r: Option<Value>)
    ensures r matches Some(v) ==> (input.flt_view() is Some && min.flt_view() is Some && v.num() matches Some(Num::Flt(_)))
//@ closure 5 arg_of=and_then params=i
|i: f64| -> (r: Option<Value>)
    ensures r matches Some(v) ==> (min.flt_view() is Some && v.num() matches Some(Num::Flt(_)))
//@ closure 6 arg_of=map params=min
|min: f64| -> (v: Value)
    ensures v.num() matches Some(Num::Flt(_))
//@ closure 7 arg_of=ok_or_else params=
|| -> (e: Error)
//@ end
}

// ---------------- at_most ----------------
pub struct AtMostArgs { pub e: u8 }
pub struct EvaluatedAtMostArgs { pub max: ArgValue }
impl AtMostArgs {
    #[verifier::external_body]
    pub fn evaluate(&self, runtime: &dyn Runtime) -> (r: Result<EvaluatedAtMostArgs>)
        ensures r matches Ok(e) ==> at_most_arg(self, runtime) == Some(e.max),
                r is Err ==> at_most_arg(self, runtime) is None
    { unimplemented!() }
}
/// the evaluated operand the filter was called with (None: evaluating the argument expression failed)
pub uninterp spec fn at_most_arg(a: &AtMostArgs, rt: &dyn Runtime) -> Option<ArgValue>;
pub struct AtMostFilter { pub args: AtMostArgs }
pub open spec fn at_most_ints(f: &AtMostFilter, input: &dyn ValueView, rt: &dyn Runtime) -> Option<(int, int)> {
    match (input.scalar_of(), at_most_arg(&f.args, rt)) {
        (Some(a), Some(b)) => match (a.int_view(), b.scalar_of()) {
            (Some(i), Some(bs)) => match bs.int_view() { Some(o) => Some((i as int, o as int)), None => None },
            _ => None,
        },
        _ => None,
    }
}
pub open spec fn at_most_flts(f: &AtMostFilter, input: &dyn ValueView, rt: &dyn Runtime) -> Option<(f64, f64)> {
    match (input.scalar_of(), at_most_arg(&f.args, rt)) {
        (Some(a), Some(b)) => match (a.flt_view(), b.scalar_of()) {
            (Some(i), Some(bs)) => match bs.flt_view() { Some(o) => Some((i, o)), None => None },
            _ => None,
        },
        _ => None,
    }
}
impl AtMostFilter {
//@ item crates/lib/src/stdlib/filters/math.rs :: impl Filter for AtMostFilter::evaluate
//@ props C15 C02
//@ safety C02 C15
//@ sig fn evaluate(&self, input: &dyn ValueView, runtime: &dyn Runtime) -> (res: Result<Value>)
//@ spec
    ensures
        res matches Ok(v) ==> v.num() is Some,
        // an integer result is the exact mathematical result of the two integer operands
        res matches Ok(v) ==> (v.num() matches Some(Num::Int(k)) ==>
            (at_most_ints(self, input, runtime) matches Some((i, o)) && k == (if i <= o { i } else { o }))),     // [C15:at_most_int_exact]
        // whenever both operands are integers and the result fits in 64 bits, the filter returns it
        at_most_ints(self, input, runtime) matches Some((i, o)) ==> (true ==>
            (res matches Ok(v) && v.num() == Some(Num::Int((if i <= o { i } else { o }) as i64)))),                         // [C15:at_most_int_when_fits]
        // a float result only arises from the float views of both operands (the float operation itself is not modelled)
        res matches Ok(v) ==> (v.num() matches Some(Num::Flt(x)) ==>
            (at_most_flts(self, input, runtime) is Some)),            // [C15:at_most_float_from_float_views]
//@ prologue
    broadcast use group_f64_total;
//@ closure 0 arg_of=ok_or_else params=
|| -> (e: Error)
//@ closure 1 arg_of=ok_or_else params=
|| -> (e: Error)
//@ closure 2 arg_of=and_then params=i
|i: i64| -> (r: Option<Value>)
    ensures max.int_view() is Some <==> r is Some,
            r matches Some(v) ==> (max.int_view() matches Some(o) && v.num() == Some(Num::Int(if i <= o { i } else { o })))
//@ closure 3 arg_of=map params=max
|max: i64| -> (v: Value) ensures v.num() == Some(Num::Int(if i <= max { i } else { max }))
//@ closure 4 arg_of=or_else params=
|| -> (r: Option<Value>)
    ensures r matches Some(v) ==> (input.flt_view() is Some && max.flt_view() is Some && v.num() matches Some(Num::Flt(_)))
//@ closure 5 arg_of=and_then params=i
|i: f64| -> (r: Option<Value>)
    ensures r matches Some(v) ==> (max.flt_view() is Some && v.num() matches Some(Num::Flt(_)))
//@ closure 6 arg_of=map params=max
|max: f64| -> (v: Value)
    ensures v.num() matches Some(Num::Flt(_))
//@ closure 7 arg_of=ok_or_else params=
|| -> (e: Error)
//@ end
}

// ---------------- plus ----------------
pub struct PlusArgs { pub e: u8 }
pub struct EvaluatedPlusArgs { pub operand: ArgValue }
impl PlusArgs {
    #[verifier::external_body]
    pub fn evaluate(&self, runtime: &dyn Runtime) -> (r: Result<EvaluatedPlusArgs>)
        ensures r matches Ok(e) ==> plus_arg(self, runtime) == Some(e.operand),
                r is Err ==> plus_arg(self, runtime) is None
    { unimplemented!() }
}
/// the evaluated operand the filter was called with (None: evaluating the argument expression failed)
pub uninterp spec fn plus_arg(a: &PlusArgs, rt: &dyn Runtime) -> Option<ArgValue>;
pub struct PlusFilter { pub args: PlusArgs }
pub open spec fn plus_ints(f: &PlusFilter, input: &dyn ValueView, rt: &dyn Runtime) -> Option<(int, int)> {
    match (input.scalar_of(), plus_arg(&f.args, rt)) {
        (Some(a), Some(b)) => match (a.int_view(), b.scalar_of()) {
            (Some(i), Some(bs)) => match bs.int_view() { Some(o) => Some((i as int, o as int)), None => None },
            _ => None,
        },
        _ => None,
    }
}
pub open spec fn plus_flts(f: &PlusFilter, input: &dyn ValueView, rt: &dyn Runtime) -> Option<(f64, f64)> {
    match (input.scalar_of(), plus_arg(&f.args, rt)) {
        (Some(a), Some(b)) => match (a.flt_view(), b.scalar_of()) {
            (Some(i), Some(bs)) => match bs.flt_view() { Some(o) => Some((i, o)), None => None },
            _ => None,
        },
        _ => None,
    }
}
impl PlusFilter {
//@ item crates/lib/src/stdlib/filters/math.rs :: impl Filter for PlusFilter::evaluate
//@ props C15 C02
//@ safety C02 C15
//@ sig fn evaluate(&self, input: &dyn ValueView, runtime: &dyn Runtime) -> (res: Result<Value>)
//@ spec
    ensures
        res matches Ok(v) ==> v.num() is Some,
        // an integer result is the exact mathematical result of the two integer operands
        res matches Ok(v) ==> (v.num() matches Some(Num::Int(k)) ==>
            (plus_ints(self, input, runtime) matches Some((i, o)) && k == i + o)),     // [C15:plus_int_exact]
        // whenever both operands are integers and the result fits in 64 bits, the filter returns it
        plus_ints(self, input, runtime) matches Some((i, o)) ==> (fits(i + o) ==>
            (res matches Ok(v) && v.num() == Some(Num::Int((i + o) as i64)))),                         // [C15:plus_int_when_fits]
        // a float result only arises from the float views of both operands (the float operation itself is not modelled)
        res matches Ok(v) ==> (v.num() matches Some(Num::Flt(x)) ==>
            (plus_flts(self, input, runtime) is Some)),            // [C15:plus_float_from_float_views]
//@ prologue
    broadcast use group_f64_total;
//@ closure 0 arg_of=ok_or_else params=
|| -> (e: Error)
//@ closure 1 arg_of=ok_or_else params=
|| -> (e: Error)
//@ closure 2 arg_of=and_then params=i
|i: i64| -> (r: Option<Value>)
    ensures r matches Some(v) ==> (operand.int_view() matches Some(o) && { let i = i as int; let o = o as int; fits(i + o) && v.num() == Some(Num::Int((i + o) as i64)) }),
            operand.int_view() matches Some(o) ==> ({ let i = i as int; let o = o as int; fits(i + o) } ==> r is Some)
//@ closure 3 arg_of=and_then params=o
|o: i64| -> (c: Option<i64>)
    ensures c == ({ let i = i as int; let o = o as int; if fits(i + o) { Some((i + o) as i64) } else { None::<i64> } })
//@ closure 4 arg_of=or_else params=
|| -> (r: Option<Value>)
    ensures r matches Some(v) ==> (input.flt_view() is Some && operand.flt_view() is Some && v.num() matches Some(Num::Flt(_)))
//@ closure 5 arg_of=and_then params=i
|i: f64| -> (r: Option<Value>)
    ensures r matches Some(v) ==> (operand.flt_view() is Some && v.num() matches Some(Num::Flt(_)))
//@ closure 6 arg_of=map params=o
|o: f64| -> (v: Value)
    ensures v.num() matches Some(Num::Flt(_))
//@ closure 7 arg_of=ok_or_else params=
|| -> (e: Error)
//@ end
}

// ---------------- minus ----------------
pub struct MinusArgs { pub e: u8 }
pub struct EvaluatedMinusArgs { pub operand: ArgValue }
impl MinusArgs {
    #[verifier::external_body]
    pub fn evaluate(&self, runtime: &dyn Runtime) -> (r: Result<EvaluatedMinusArgs>)
        ensures r matches Ok(e) ==> minus_arg(self, runtime) == Some(e.operand),
                r is Err ==> minus_arg(self, runtime) is None
    { unimplemented!() }
}
/// the evaluated operand the filter was called with (None: evaluating the argument expression failed)
pub uninterp spec fn minus_arg(a: &MinusArgs, rt: &dyn Runtime) -> Option<ArgValue>;
pub struct MinusFilter { pub args: MinusArgs }
pub open spec fn minus_ints(f: &MinusFilter, input: &dyn ValueView, rt: &dyn Runtime) -> Option<(int, int)> {
    match (input.scalar_of(), minus_arg(&f.args, rt)) {
        (Some(a), Some(b)) => match (a.int_view(), b.scalar_of()) {
            (Some(i), Some(bs)) => match bs.int_view() { Some(o) => Some((i as int, o as int)), None => None },
            _ => None,
        },
        _ => None,
    }
}
pub open spec fn minus_flts(f: &MinusFilter, input: &dyn ValueView, rt: &dyn Runtime) -> Option<(f64, f64)> {
    match (input.scalar_of(), minus_arg(&f.args, rt)) {
        (Some(a), Some(b)) => match (a.flt_view(), b.scalar_of()) {
            (Some(i), Some(bs)) => match bs.flt_view() { Some(o) => Some((i, o)), None => None },
            _ => None,
        },
        _ => None,
    }
}
impl MinusFilter {
//@ item crates/lib/src/stdlib/filters/math.rs :: impl Filter for MinusFilter::evaluate
//@ props C15 C02
//@ safety C02 C15
//@ sig fn evaluate(&self, input: &dyn ValueView, runtime: &dyn Runtime) -> (res: Result<Value>)
//@ spec
    ensures
        res matches Ok(v) ==> v.num() is Some,
        // an integer result is the exact mathematical result of the two integer operands
        res matches Ok(v) ==> (v.num() matches Some(Num::Int(k)) ==>
            (minus_ints(self, input, runtime) matches Some((i, o)) && k == i - o)),     // [C15:minus_int_exact]
        // whenever both operands are integers and the result fits in 64 bits, the filter returns it
        minus_ints(self, input, runtime) matches Some((i, o)) ==> (fits(i - o) ==>
            (res matches Ok(v) && v.num() == Some(Num::Int((i - o) as i64)))),                         // [C15:minus_int_when_fits]
        // a float result only arises from the float views of both operands (the float operation itself is not modelled)
        res matches Ok(v) ==> (v.num() matches Some(Num::Flt(x)) ==>
            (minus_flts(self, input, runtime) is Some)),            // [C15:minus_float_from_float_views]
//@ prologue
    broadcast use group_f64_total;
//@ closure 0 arg_of=ok_or_else params=
|| -> (e: Error)
//@ closure 1 arg_of=ok_or_else params=
|| -> (e: Error)
//@ closure 2 arg_of=and_then params=i
|i: i64| -> (r: Option<Value>)
    ensures r matches Some(v) ==> (operand.int_view() matches Some(o) && { let i = i as int; let o = o as int; fits(i - o) && v.num() == Some(Num::Int((i - o) as i64)) }),
            operand.int_view() matches Some(o) ==> ({ let i = i as int; let o = o as int; fits(i - o) } ==> r is Some)
//@ closure 3 arg_of=and_then params=o
|o: i64| -> (c: Option<i64>)
    ensures c == ({ let i = i as int; let o = o as int; if fits(i - o) { Some((i - o) as i64) } else { None::<i64> } })
//@ closure 4 arg_of=or_else params=
|| -> (r: Option<Value>)
    ensures r matches Some(v) ==> (input.flt_view() is Some && operand.flt_view() is Some && v.num() matches Some(Num::Flt(_)))
//@ closure 5 arg_of=and_then params=i
|i: f64| -> (r: Option<Value>)
    ensures r matches Some(v) ==> (operand.flt_view() is Some && v.num() matches Some(Num::Flt(_)))
//@ closure 6 arg_of=map params=o
|o: f64| -> (v: Value)
    ensures v.num() matches Some(Num::Flt(_))
//@ closure 7 arg_of=ok_or_else params=
|| -> (e: Error)
//@ end
}

// ---------------- times ----------------
pub struct TimesArgs { pub e: u8 }
pub struct EvaluatedTimesArgs { pub operand: ArgValue }
impl TimesArgs {
    #[verifier::external_body]
    pub fn evaluate(&self, runtime: &dyn Runtime) -> (r: Result<EvaluatedTimesArgs>)
        ensures r matches Ok(e) ==> times_arg(self, runtime) == Some(e.operand),
                r is Err ==> times_arg(self, runtime) is None
    { unimplemented!() }
}
/// the evaluated operand the filter was called with (None: evaluating the argument expression failed)
pub uninterp spec fn times_arg(a: &TimesArgs, rt: &dyn Runtime) -> Option<ArgValue>;
pub struct TimesFilter { pub args: TimesArgs }
pub open spec fn times_ints(f: &TimesFilter, input: &dyn ValueView, rt: &dyn Runtime) -> Option<(int, int)> {
    match (input.scalar_of(), times_arg(&f.args, rt)) {
        (Some(a), Some(b)) => match (a.int_view(), b.scalar_of()) {
            (Some(i), Some(bs)) => match bs.int_view() { Some(o) => Some((i as int, o as int)), None => None },
            _ => None,
        },
        _ => None,
    }
}
pub open spec fn times_flts(f: &TimesFilter, input: &dyn ValueView, rt: &dyn Runtime) -> Option<(f64, f64)> {
    match (input.scalar_of(), times_arg(&f.args, rt)) {
        (Some(a), Some(b)) => match (a.flt_view(), b.scalar_of()) {
            (Some(i), Some(bs)) => match bs.flt_view() { Some(o) => Some((i, o)), None => None },
            _ => None,
        },
        _ => None,
    }
}
impl TimesFilter {
//@ item crates/lib/src/stdlib/filters/math.rs :: impl Filter for TimesFilter::evaluate
//@ props C15 C02
//@ safety C02 C15
//@ sig fn evaluate(&self, input: &dyn ValueView, runtime: &dyn Runtime) -> (res: Result<Value>)
//@ spec
    ensures
        res matches Ok(v) ==> v.num() is Some,
        // an integer result is the exact mathematical result of the two integer operands
        res matches Ok(v) ==> (v.num() matches Some(Num::Int(k)) ==>
            (times_ints(self, input, runtime) matches Some((i, o)) && k == i * o)),     // [C15:times_int_exact]
        // whenever both operands are integers and the result fits in 64 bits, the filter returns it
        times_ints(self, input, runtime) matches Some((i, o)) ==> (fits(i * o) ==>
            (res matches Ok(v) && v.num() == Some(Num::Int((i * o) as i64)))),                         // [C15:times_int_when_fits]
        // a float result only arises from the float views of both operands (the float operation itself is not modelled)
        res matches Ok(v) ==> (v.num() matches Some(Num::Flt(x)) ==>
            (times_flts(self, input, runtime) is Some)),            // [C15:times_float_from_float_views]
//@ prologue
    broadcast use group_f64_total;
//@ closure 0 arg_of=ok_or_else params=
|| -> (e: Error)
//@ closure 1 arg_of=ok_or_else params=
|| -> (e: Error)
//@ closure 2 arg_of=and_then params=i
|i: i64| -> (r: Option<Value>)
    ensures r matches Some(v) ==> (operand.int_view() matches Some(o) && { let i = i as int; let o = o as int; fits(i * o) && v.num() == Some(Num::Int((i * o) as i64)) }),
            operand.int_view() matches Some(o) ==> ({ let i = i as int; let o = o as int; fits(i * o) } ==> r is Some)
//@ closure 3 arg_of=and_then params=o
|o: i64| -> (c: Option<i64>)
    ensures c == ({ let i = i as int; let o = o as int; if fits(i * o) { Some((i * o) as i64) } else { None::<i64> } })
//@ closure 4 arg_of=or_else params=
|| -> (r: Option<Value>)
    ensures r matches Some(v) ==> (input.flt_view() is Some && operand.flt_view() is Some && v.num() matches Some(Num::Flt(_)))
//@ closure 5 arg_of=and_then params=i
|i: f64| -> (r: Option<Value>)
    ensures r matches Some(v) ==> (operand.flt_view() is Some && v.num() matches Some(Num::Flt(_)))
//@ closure 6 arg_of=map params=o
|o: f64| -> (v: Value)
    ensures v.num() matches Some(Num::Flt(_))
//@ closure 7 arg_of=ok_or_else params=
|| -> (e: Error)
//@ end
}

// ---------------- divided_by ----------------
pub struct DividedByArgs { pub e: u8 }
pub struct EvaluatedDividedByArgs { pub operand: ArgValue }
impl DividedByArgs {
    #[verifier::external_body]
    pub fn evaluate(&self, runtime: &dyn Runtime) -> (r: Result<EvaluatedDividedByArgs>)
        ensures r matches Ok(e) ==> divided_by_arg(self, runtime) == Some(e.operand),
                r is Err ==> divided_by_arg(self, runtime) is None
    { unimplemented!() }
}
/// the evaluated operand the filter was called with (None: evaluating the argument expression failed)
pub uninterp spec fn divided_by_arg(a: &DividedByArgs, rt: &dyn Runtime) -> Option<ArgValue>;
pub struct DividedByFilter { pub args: DividedByArgs }
pub open spec fn divided_by_ints(f: &DividedByFilter, input: &dyn ValueView, rt: &dyn Runtime) -> Option<(int, int)> {
    match (input.scalar_of(), divided_by_arg(&f.args, rt)) {
        (Some(a), Some(b)) => match (a.int_view(), b.scalar_of()) {
            (Some(i), Some(bs)) => match bs.int_view() { Some(o) => Some((i as int, o as int)), None => None },
            _ => None,
        },
        _ => None,
    }
}
pub open spec fn divided_by_flts(f: &DividedByFilter, input: &dyn ValueView, rt: &dyn Runtime) -> Option<(f64, f64)> {
    match (input.scalar_of(), divided_by_arg(&f.args, rt)) {
        (Some(a), Some(b)) => match (a.flt_view(), b.scalar_of()) {
            (Some(i), Some(bs)) => match bs.flt_view() { Some(o) => Some((i, o)), None => None },
            _ => None,
        },
        _ => None,
    }
}
impl DividedByFilter {
//@ item crates/lib/src/stdlib/filters/math.rs :: impl Filter for DividedByFilter::evaluate
//@ props C15 C02
//@ safety C02 C15
//@ sig fn evaluate(&self, input: &dyn ValueView, runtime: &dyn Runtime) -> (res: Result<Value>)
//@ spec
    ensures
        res matches Ok(v) ==> v.num() is Some,
        // an integer result is the exact mathematical result of the two integer operands
        res matches Ok(v) ==> (v.num() matches Some(Num::Int(k)) ==>
            (divided_by_ints(self, input, runtime) matches Some((i, o)) && o != 0 && k == rust_div(i, o))),     // [C15:divided_by_int_exact]
        // whenever both operands are integers and the result fits in 64 bits, the filter returns it
        divided_by_ints(self, input, runtime) matches Some((i, o)) ==> ((o != 0 && !(i == i64::MIN && o == -1)) ==>
            (res matches Ok(v) && v.num() == Some(Num::Int((rust_div(i, o)) as i64)))),                         // [C15:divided_by_int_when_fits]
        // a float result only arises from the float views of both operands (the float operation itself is not modelled)
        res matches Ok(v) ==> (v.num() matches Some(Num::Flt(x)) ==>
            (divided_by_flts(self, input, runtime) is Some)),            // [C15:divided_by_float_from_float_views]
        // division by zero is an error
        divided_by_ints(self, input, runtime) matches Some((i, o)) ==> (o == 0 ==> res is Err),             // [C15:divided_by_by_zero_is_error]
//@ prologue
    broadcast use group_f64_total;
//@ closure 0 arg_of=ok_or_else params=
|| -> (e: Error)
//@ closure 1 arg_of=ok_or_else params=
|| -> (e: Error)
//@ closure 2 arg_of=and_then params=i
|i: i64| -> (r: Option<Value>)
    requires operand.int_view() matches Some(o) ==> o != 0
    ensures r matches Some(v) ==> (operand.int_view() matches Some(o) && { let i = i as int; let o = o as int; (o != 0 && !(i == i64::MIN && o == -1)) && v.num() == Some(Num::Int((rust_div(i, o)) as i64)) }),
            operand.int_view() matches Some(o) ==> ({ let i = i as int; let o = o as int; (o != 0 && !(i == i64::MIN && o == -1)) } ==> r is Some)
//@ closure 3 arg_of=and_then params=o
|o: i64| -> (c: Option<i64>)
    requires o != 0
    ensures c == ({ let i = i as int; let o = o as int; if (o != 0 && !(i == i64::MIN && o == -1)) { Some((rust_div(i, o)) as i64) } else { None::<i64> } })
//@ closure 4 arg_of=or_else params=
|| -> (r: Option<Value>)
    ensures r matches Some(v) ==> (input.flt_view() is Some && operand.flt_view() is Some && v.num() matches Some(Num::Flt(_)))
//@ closure 5 arg_of=and_then params=i
|i: f64| -> (r: Option<Value>)
    ensures r matches Some(v) ==> (operand.flt_view() is Some && v.num() matches Some(Num::Flt(_)))
//@ closure 6 arg_of=map params=o
|o: f64| -> (v: Value)
    ensures v.num() matches Some(Num::Flt(_))
//@ closure 7 arg_of=ok_or_else params=
|| -> (e: Error)
//@ ghost before <<let result = input>>
proof { if let (Some(i), Some(o)) = (input.int_view(), operand.int_view()) { if o != 0 { lemma_trunc(i as int, o as int); if !(i == i64::MIN && o == -1) { lemma_div_fits(i, o); } } } }
//@ end
}

// ---------------- modulo ----------------
pub struct ModuloArgs { pub e: u8 }
pub struct EvaluatedModuloArgs { pub operand: ArgValue }
impl ModuloArgs {
    #[verifier::external_body]
    pub fn evaluate(&self, runtime: &dyn Runtime) -> (r: Result<EvaluatedModuloArgs>)
        ensures r matches Ok(e) ==> modulo_arg(self, runtime) == Some(e.operand),
                r is Err ==> modulo_arg(self, runtime) is None
    { unimplemented!() }
}
/// the evaluated operand the filter was called with (None: evaluating the argument expression failed)
pub uninterp spec fn modulo_arg(a: &ModuloArgs, rt: &dyn Runtime) -> Option<ArgValue>;
pub struct ModuloFilter { pub args: ModuloArgs }
pub open spec fn modulo_ints(f: &ModuloFilter, input: &dyn ValueView, rt: &dyn Runtime) -> Option<(int, int)> {
    match (input.scalar_of(), modulo_arg(&f.args, rt)) {
        (Some(a), Some(b)) => match (a.int_view(), b.scalar_of()) {
            (Some(i), Some(bs)) => match bs.int_view() { Some(o) => Some((i as int, o as int)), None => None },
            _ => None,
        },
        _ => None,
    }
}
pub open spec fn modulo_flts(f: &ModuloFilter, input: &dyn ValueView, rt: &dyn Runtime) -> Option<(f64, f64)> {
    match (input.scalar_of(), modulo_arg(&f.args, rt)) {
        (Some(a), Some(b)) => match (a.flt_view(), b.scalar_of()) {
            (Some(i), Some(bs)) => match bs.flt_view() { Some(o) => Some((i, o)), None => None },
            _ => None,
        },
        _ => None,
    }
}
impl ModuloFilter {
//@ item crates/lib/src/stdlib/filters/math.rs :: impl Filter for ModuloFilter::evaluate
//@ props C15 C02
//@ safety C02 C15
//@ sig fn evaluate(&self, input: &dyn ValueView, runtime: &dyn Runtime) -> (res: Result<Value>)
//@ spec
    ensures
        res matches Ok(v) ==> v.num() is Some,
        // an integer result is the exact mathematical result of the two integer operands
        res matches Ok(v) ==> (v.num() matches Some(Num::Int(k)) ==>
            (modulo_ints(self, input, runtime) matches Some((i, o)) && o != 0 && k == rust_rem(i, o))),     // [C15:modulo_int_exact]
        // whenever both operands are integers and the result fits in 64 bits, the filter returns it
        modulo_ints(self, input, runtime) matches Some((i, o)) ==> ((o != 0) ==>
            (res matches Ok(v) && v.num() == Some(Num::Int((rust_rem(i, o)) as i64)))),                         // [C15:modulo_int_when_fits]
        // a float result only arises from the float views of both operands (the float operation itself is not modelled)
        res matches Ok(v) ==> (v.num() matches Some(Num::Flt(x)) ==>
            (modulo_flts(self, input, runtime) is Some)),            // [C15:modulo_float_from_float_views]
        // division by zero is an error
        modulo_ints(self, input, runtime) matches Some((i, o)) ==> (o == 0 ==> res is Err),             // [C15:modulo_by_zero_is_error]
//@ prologue
    broadcast use group_f64_total;
//@ closure 0 arg_of=ok_or_else params=
|| -> (e: Error)
//@ closure 1 arg_of=ok_or_else params=
|| -> (e: Error)
//@ closure 2 arg_of=and_then params=i
|i: i64| -> (r: Option<Value>)
    requires operand.int_view() matches Some(o) ==> o != 0
    ensures operand.int_view() is Some <==> r is Some,
            r matches Some(v) ==> (operand.int_view() matches Some(o) && v.num() == Some(Num::Int(rust_rem(i as int, o as int) as i64)))
//@ closure 3 arg_of=map params=o
|o: i64| -> (v: Value)
    requires o != 0
    ensures v.num() == Some(Num::Int(rust_rem(i as int, o as int) as i64))
//@ closure 4 arg_of=or_else params=
|| -> (r: Option<Value>)
    ensures r matches Some(v) ==> (input.flt_view() is Some && operand.flt_view() is Some && v.num() matches Some(Num::Flt(_)))
//@ closure 5 arg_of=and_then params=i
|i: f64| -> (r: Option<Value>)
    ensures r matches Some(v) ==> (operand.flt_view() is Some && v.num() matches Some(Num::Flt(_)))
//@ closure 6 arg_of=map params=o
|o: f64| -> (v: Value)
    ensures v.num() matches Some(Num::Flt(_))
//@ closure 7 arg_of=ok_or_else params=
|| -> (e: Error)
//@ ghost before <<let result = input>>
proof { if let (Some(i), Some(o)) = (input.int_view(), operand.int_view()) { if o != 0 { lemma_trunc(i as int, o as int); if !(i == i64::MIN && o == -1) { lemma_div_fits(i, o); } } } }
//@ end
}

// ---------------- abs ----------------
pub struct AbsFilter;
impl AbsFilter {
//@ item crates/lib/src/stdlib/filters/math.rs :: impl Filter for AbsFilter::evaluate
//@ props C15 C02
//@ safety C02 C15
//@ sig fn evaluate(&self, input: &dyn ValueView, _runtime: &dyn Runtime) -> (res: Result<Value>)
//@ spec
    ensures
        res matches Ok(v) ==> v.num() is Some,
        res matches Ok(v) ==> (v.num() matches Some(Num::Int(k)) ==>
            (input.scalar_of() matches Some(a) && a.int_view() matches Some(i) && k == iabs(i as int))),          // [C15:abs_int_exact]
        input.scalar_of() matches Some(a) ==> (a.int_view() matches Some(i) ==> (i != i64::MIN ==>
            (res matches Ok(v) && v.num() == Some(Num::Int(iabs(i as int) as i64))))),                            // [C15:abs_int_when_fits]
        res matches Ok(v) ==> (v.num() matches Some(Num::Flt(x)) ==>
            (input.scalar_of() matches Some(a) && a.flt_view() matches Some(f) && x == f64_abs(f))),              // [C15:abs_float_is_f64_abs]
//@ prologue
    broadcast use group_f64_total;
//@ closure 0 arg_of=ok_or_else params=
|| -> (e: Error)
//@ closure 1 arg_of=and_then params=i
|i: i64| -> (r: Option<i64>) ensures r == (if i == i64::MIN { None::<i64> } else { Some(iabs(i as int) as i64) })
//@ closure 2 arg_of=or_else params=
|| -> (r: Option<Value>) ensures r matches Some(v) ==> (input.flt_view() matches Some(f) && v.num() == Some(Num::Flt(f64_abs(f))))
//@ closure 3 arg_of=map params=i
|i: f64| -> (v: Value) ensures v.num() == Some(Num::Flt(f64_abs(i)))
//@ closure 4 arg_of=ok_or_else params=
|| -> (e: Error)
//@ end
}

// ---------------- floor / ceil / round ----------------
pub struct FloorFilter;
pub struct CeilFilter;
pub open spec fn input_float(input: &dyn ValueView) -> Option<f64> {
    match input.scalar_of() { Some(s) => s.flt_view(), None => None }
}
impl FloorFilter {
//@ item crates/lib/src/stdlib/filters/math.rs :: impl Filter for FloorFilter::evaluate
//@ props C15 C02
//@ safety C02 C15
//@ sig fn evaluate(&self, input: &dyn ValueView, _runtime: &dyn Runtime) -> (res: Result<Value>)
//@ spec
    ensures
        res matches Ok(v) ==> (input_float(input) matches Some(f) && v.num() == Some(Num::Int(f64_to_i64(f64_floor(f))))),    // [C15:floor_is_floor_then_cast]
        input_float(input) is Some ==> res is Ok,                                                                             // [C15:floor_total_on_numbers]
//@ editall << as i64>> => <<.sat_i64()>> why: Verus leaves the float->int `as` cast unspecified; stand-in method with an uninterpreted result
//@ closure 0 arg_of=and_then params=s
|s: ScalarCow| -> (o: Option<f64>) ensures o == s.flt_view()
//@ closure 1 arg_of=ok_or_else params=
|| -> (e: Error)
//@ end
}
impl CeilFilter {
//@ item crates/lib/src/stdlib/filters/math.rs :: impl Filter for CeilFilter::evaluate
//@ props C15 C02
//@ safety C02 C15
//@ sig fn evaluate(&self, input: &dyn ValueView, _runtime: &dyn Runtime) -> (res: Result<Value>)
//@ spec
    ensures
        res matches Ok(v) ==> (input_float(input) matches Some(f) && v.num() == Some(Num::Int(f64_to_i64(f64_ceil(f))))),     // [C15:ceil_is_ceil_then_cast]
        input_float(input) is Some ==> res is Ok,                                                                             // [C15:ceil_total_on_numbers]
//@ editall << as i64>> => <<.sat_i64()>> why: Verus leaves the float->int `as` cast unspecified; stand-in method with an uninterpreted result
//@ closure 0 arg_of=and_then params=s
|s: ScalarCow| -> (o: Option<f64>) ensures o == s.flt_view()
//@ closure 1 arg_of=ok_or_else params=
|| -> (e: Error)
//@ end
}

// round: n <= 0 decimal places -> round then cast; n > 0 -> (x * 10^n).round() / 10^n
pub struct RoundArgs { pub e: u8 }
pub struct EvaluatedRoundArgs { pub decimal_places: Option<i64> }
impl RoundArgs {
    #[verifier::external_body]
    pub fn evaluate(&self, runtime: &dyn Runtime) -> (r: Result<EvaluatedRoundArgs>)
        ensures r matches Ok(e) ==> round_arg(self, runtime) == Some(e.decimal_places),
                r is Err ==> round_arg(self, runtime) is None
    { unimplemented!() }
}
pub uninterp spec fn round_arg(a: &RoundArgs, rt: &dyn Runtime) -> Option<Option<i64>>;
pub struct RoundFilter { pub args: RoundArgs }
pub open spec fn places(a: Option<i64>) -> int { match a { Some(n) => n as int, None => 0 } }
impl RoundFilter {
//@ item crates/lib/src/stdlib/filters/math.rs :: impl Filter for RoundFilter::evaluate
//@ props C15 C02
//@ safety C02 C15
//@ sig fn evaluate(&self, input: &dyn ValueView, runtime: &dyn Runtime) -> (res: Result<Value>)
//@ spec
    ensures
        res matches Ok(v) ==> (round_arg(&self.args, runtime) matches Some(a) && input_float(input) matches Some(f) && (
            (places(a) <= 0 ==> v.num() == Some(Num::Int(f64_to_i64(f64_round(f)))))                                          // [C15:round_to_integer_is_round_then_cast]
            && (places(a) > 0 ==> v.num() matches Some(Num::Flt(_))))),                                                       // [C15:round_to_places_is_float]
        (round_arg(&self.args, runtime) matches Some(a) && input_float(input) is Some && places(a) <= i32::MAX) ==> res is Ok, // [C15:round_total_on_numbers]
//@ prologue
    broadcast use group_f64_total;
//@ editall << as i64>> => <<.sat_i64()>> why: Verus leaves the float->int `as` cast unspecified; stand-in method with an uninterpreted result
//@ closure 0 arg_of=and_then params=s
|s: ScalarCow| -> (o: Option<f64>) ensures o == s.flt_view()
//@ closure 1 arg_of=ok_or_else params=
|| -> (e: Error)
//@ closure 2 arg_of=map_err params=_
|_e: core::num::TryFromIntError| -> (e: Error)
//@ end
}

} // verus!
fn main() {}

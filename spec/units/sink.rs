//@ unit sink
//@ serves C10 C05 C02
//@ include prelude/header.rs
verus! {
//@ include prelude/error.rs
//@ include prelude/runtime.rs
//@ include prelude/render.rs
}
//@ include prelude/render_macros.rs
verus! {

// ---------------- Text (literal template text) ----------------
pub struct Text { pub text: String }
impl Text {
//@ item crates/core/src/parser/text.rs :: impl Renderable for Text::render_to
//@ props C10 C02
//@ sig fn render_to(&self, writer: &mut Sink, _runtime: &dyn Runtime) -> (r: Result<()>)
//@ spec
    requires !old(writer).failed@,
    ensures
        sink_safe(*old(writer), *final(writer), r),                                               // [C10:text_failed_sink_is_error]
        r is Ok ==> final(writer).log@ == old(writer).log@.push(Ev::Write("{}"@)),                // [C10:text_writes_exactly_once]
        r is Err ==> final(writer).log@ == old(writer).log@,                                      // [C10:text_error_writes_nothing]
//@ end
}

// ---------------- Template (a sequence of nodes) ----------------
#[verifier::external_body]
pub struct InterruptRegister { _p: u8 }
impl RegisterDefault for InterruptRegister { }
impl InterruptRegister {
    #[verifier::external_body]
    pub fn interrupted(&self) -> bool { unimplemented!() }
}
pub struct Template { pub elements: Vec<Box<dyn Renderable>> }

/// events of rendering elements[0..k) completely, in order, once each
pub open spec fn children(t: &Template, rt: RtId, k: int) -> Seq<Ev> {
    Seq::new(k as nat, |j: int| Ev::Child(t.elements@[j].rid(), rt))
}
proof fn lemma_children_step(t: &Template, rt: RtId, k: int, pre: Seq<Ev>)
    requires 0 <= k < t.elements@.len(),
    ensures (pre + children(t, rt, k)).push(Ev::Child(t.elements@[k].rid(), rt)) == pre + children(t, rt, k + 1),
            children(t, rt, 0) == Seq::<Ev>::empty(), pre + children(t, rt, 0) == pre,
{
    assert((pre + children(t, rt, k)).push(Ev::Child(t.elements@[k].rid(), rt)) =~= pre + children(t, rt, k + 1));
    assert(pre + children(t, rt, 0) =~= pre);
    assert(children(t, rt, 0) =~= Seq::<Ev>::empty());
}
// (module so that the body's `super::InterruptRegister` path resolves as it does in runtime/template.rs)
mod template { use super::*;
impl Template {
//@ item crates/core/src/runtime/template.rs :: impl Renderable for Template::render_to
//@ props C10 C05 C02
//@ sig fn render_to(&self, writer: &mut Sink, runtime: &dyn Runtime) -> (r: Result<()>)
//@ spec
    requires !old(writer).failed@,
        runtime.writable(),                                                            // [C02:scope_has_assignment_and_counter_layers]
    ensures
        sink_safe(*old(writer), *final(writer), r),                                               // [C10:template_failed_sink_is_error]
        // Ok: a prefix of the elements was rendered, in order, each exactly once (all of them unless an interrupt was raised)
        r is Ok ==> (exists|k: int| 0 <= k <= self.elements@.len() &&
            final(writer).log@ == old(writer).log@ + #[trigger] children(self, runtime.ident(), k)),               // [C05:body_renders_elements_in_order_once] [C10:template_ok_trace]
        // Err: the elements before the failing one were rendered completely; nothing after it was started
        r is Err ==> (exists|k: int| 0 <= k < self.elements@.len() && (
            final(writer).log@ == old(writer).log@ + #[trigger] children(self, runtime.ident(), k)
            || final(writer).log@ == (old(writer).log@ + children(self, runtime.ident(), k)).push(Ev::Partial(self.elements@[k].rid(), runtime.ident())))),   // [C10:template_stops_at_first_error]
//@ editre <<for (\w+) in &self\.elements>> => <<for \1 in it: &self.elements>> why: names Verus' ghost iterator so that the invariant can refer to the position
//@ loop 0 kind=for
    invariant_except_break
        writer.log@ == old(writer).log@ + children(self, runtime.ident(), it.index@),
    invariant
        !writer.failed@, runtime.writable(),
        0 <= it.index@ <= self.elements@.len(),
    ensures
        exists|k: int| 0 <= k <= self.elements@.len() && writer.log@ == old(writer).log@ + #[trigger] children(self, runtime.ident(), k),
//@ prologue
    proof { assert(old(writer).log@ + children(self, runtime.ident(), 0) =~= old(writer).log@); }
//@ ghost after re<<\w+\.render_to\(writer, runtime\)\??;>>
    proof { lemma_children_step(self, runtime.ident(), it.index@, old(writer).log@); }
//@ end
}
}

} // verus!
fn main() {}

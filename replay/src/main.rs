//! replay: run a witness against the REAL liquid-rust code (path dependency on /repo).
//!
//!   replay <file.json>          file is either a witness object or a replay file with a "witness" key
//!   replay --stdin              read a JSON array of witnesses on stdin; print one JSON result per line
//!
//! witness = {"kind":"render","template":T,"data":{..},"expect":E}
//!   E = {"output": S} | {"error": true} | {"no_panic": true} | {"output_or_error": S}
//! exit 0: the real code behaves as `expect` says (property holds on this input)
//! exit 1: it does not (the witness is a failing input)      exit 3: bad replay file
use std::panic;

fn render(template: &str, data: &serde_json::Value) -> Result<Result<String, String>, String> {
    let template = template.to_owned();
    let data = data.clone();
    let r = panic::catch_unwind(move || {
        let parser = liquid::ParserBuilder::with_stdlib()
            .build()
            .map_err(|e| format!("parser: {e}"))?;
        let t = parser.parse(&template).map_err(|e| format!("parse: {e}"))?;
        let globals: liquid::Object = serde_json::from_value(data).map_err(|e| format!("data: {e}"))?;
        t.render(&globals).map_err(|e| format!("render: {e}"))
    });
    match r {
        Ok(x) => Ok(x),
        Err(p) => {
            let msg = if let Some(s) = p.downcast_ref::<&str>() {
                s.to_string()
            } else if let Some(s) = p.downcast_ref::<String>() {
                s.clone()
            } else {
                "panic".to_string()
            };
            Err(msg)
        }
    }
}

fn run(w: &serde_json::Value) -> (bool, String) {
    let kind = w.get("kind").and_then(|k| k.as_str()).unwrap_or("render");
    match kind {
        "render" => {
            let t = w["template"].as_str().unwrap_or("");
            let null = serde_json::json!({});
            let data = w.get("data").unwrap_or(&null);
            let res = render(t, data);
            let e = &w["expect"];
            let obs = match &res {
                Ok(Ok(s)) => format!("output {s:?}"),
                Ok(Err(e)) => format!("error {e:?}"),
                Err(p) => format!("PANIC {p:?}"),
            };
            let holds = if let Some(s) = e.get("output").and_then(|s| s.as_str()) {
                matches!(&res, Ok(Ok(o)) if o == s)
            } else if let Some(s) = e.get("output_or_error").and_then(|s| s.as_str()) {
                matches!(&res, Ok(Ok(o)) if o == s) || matches!(&res, Ok(Err(_)))
            } else if e.get("error").is_some() {
                matches!(&res, Ok(Err(_)))
            } else {
                matches!(&res, Ok(_))
            };
            (holds, obs)
        }
        _ => (true, format!("unknown witness kind {kind}")),
    }
}

fn main() {
    panic::set_hook(Box::new(|_| {}));
    let arg = std::env::args().nth(1).unwrap_or_default();
    if arg == "--stdin" {
        let mut s = String::new();
        std::io::Read::read_to_string(&mut std::io::stdin(), &mut s).unwrap();
        let v: serde_json::Value = serde_json::from_str(&s).expect("json");
        for w in v.as_array().expect("array") {
            let (holds, obs) = run(w);
            println!("{}", serde_json::json!({"holds": holds, "observed": obs}));
        }
        return;
    }
    let s = match std::fs::read_to_string(&arg) {
        Ok(s) => s,
        Err(e) => {
            eprintln!("cannot read {arg}: {e}");
            std::process::exit(3)
        }
    };
    let v: serde_json::Value = match serde_json::from_str(&s) {
        Ok(v) => v,
        Err(e) => {
            eprintln!("bad json: {e}");
            std::process::exit(3)
        }
    };
    let w = if v.get("witness").is_some() { v["witness"].clone() } else { v.clone() };
    if let Some(o) = v.get("obligation") {
        println!("obligation: {}", o);
    }
    if w.is_null() || w.get("template").is_none() {
        println!("no failing input recorded (the verifier gives no model); failed obligation and verifier output are in the file");
        if let Some(out) = v.get("verifier_output").and_then(|x| x.as_str()) {
            println!("{out}");
        }
        std::process::exit(1);
    }
    let (holds, obs) = run(&w);
    println!("witness: {}", w);
    println!("observed on real code: {obs}");
    if holds {
        println!("HOLDS");
        std::process::exit(0);
    } else {
        println!("VIOLATED");
        std::process::exit(1);
    }
}

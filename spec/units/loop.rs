//@ unit loop
//@ serves C05 C02
//@ include prelude/header.rs
verus! {
//@ include prelude/std.rs
//@ include prelude/drain.rs

// ---------------- assumed environment of for_block.rs ----------------
pub trait ValueView {}

#[verifier::external_body]
pub struct ValueCow<'a> { _p: &'a u8 }
impl<'a> Clone for ValueCow<'a> {
    #[verifier::external_body]
    fn clone(&self) -> (r: Self) { unimplemented!() }
}
pub enum Value { Nil }
impl<'a> From<Value> for ValueCow<'a> {
    #[verifier::external_body]
    fn from(v: Value) -> (r: Self) { unimplemented!() }
}

// ---------------- loop metadata: ForloopObject / TableRowObject ----------------
//@ item crates/lib/src/stdlib/blocks/for_block.rs :: struct ForloopObject
//@ kind struct
//@ end

impl<'p> ForloopObject<'p> {
//@ item crates/lib/src/stdlib/blocks/for_block.rs :: impl ForloopObject<'p>::new
//@ props C05 C02
//@ sig fn new(i: usize, len: usize) -> (r: Self)
//@ spec
    requires
        i < len, len <= isize::MAX as usize,   // call sites: `enumerate()` over a Vec of that length
    ensures
        r.length == len,                        // [C05:forloop_length]
        r.index0 == i, r.index == i + 1,        // [C05:forloop_index]
        r.rindex0 == len - i - 1, r.rindex == len - i,   // [C05:forloop_rindex]
        r.first == (i == 0),                    // [C05:forloop_first]
        r.last == (i == len - 1),               // [C05:forloop_last]
        r.parentloop.is_none(),
//@ end
}

//@ item crates/lib/src/stdlib/blocks/for_block.rs :: struct TableRowObject
//@ kind struct
//@ end

impl TableRowObject {
//@ item crates/lib/src/stdlib/blocks/for_block.rs :: impl TableRowObject::new
//@ props C05 C02
//@ sig fn new(i: usize, len: usize, col: usize, cols: usize) -> (r: Self)
//@ spec
    requires
        i < len, len <= isize::MAX as usize, 1 <= cols <= isize::MAX as usize, col == i % cols,
    ensures
        r.length == len,                                   // [C05:tablerow_length]
        r.index0 == i, r.index == i + 1,                   // [C05:tablerow_index]
        r.rindex0 == len - i - 1, r.rindex == len - i,     // [C05:tablerow_rindex]
        r.first == (i == 0), r.last == (i == len - 1),     // [C05:tablerow_first_last]
        r.col0 == i % cols, r.col == i % cols + 1,         // [C05:tablerow_col]
        r.col_first == (i % cols == 0),                    // [C05:tablerow_col_first]
        r.col_last == ((i % cols == cols - 1) || i == len - 1),   // [C05:tablerow_col_last]
//@ end
}

// consequences a template author relies on (pure lemmas over the contracts above)
proof fn lemma_forloop_fields(i: int, len: int)
    requires 0 <= i < len,
    ensures
        ((i == 0) && (i == len - 1)) <==> len == 1,      // first && last  <=> single element
        (i + 1) + (len - i - 1) == len,                  // index + rindex0 == length
        1 <= i + 1 <= len, 1 <= len - i <= len,          // index, rindex in 1..=length
{
}

// ---------------- window selection: iter_array ----------------
pub open spec fn window_offset(n: int, offset: int) -> int { if offset <= n { offset } else { n } }
pub open spec fn window_len(n: int, limit: Option<usize>, offset: int) -> int {
    let o = window_offset(n, offset);
    match limit { Some(l) => if (l as int) < n - o { l as int } else { n - o }, None => n - o }
}
/// "exactly the elements selected by offset, limit and reversed, in order, once each"
pub open spec fn window<T>(s: Seq<T>, limit: Option<usize>, offset: int, reversed: bool) -> Seq<T> {
    let o = window_offset(s.len() as int, offset);
    let l = window_len(s.len() as int, limit, offset);
    let sel = s.subrange(o, o + l);
    if reversed { sel.reverse() } else { sel }
}

//@ item crates/lib/src/stdlib/blocks/for_block.rs :: fn iter_array
//@ props C05 C02
//@ sig fn iter_array<'a>(mut range: Vec<ValueCow<'a>>, limit: Option<usize>, offset: usize, reversed: bool) -> (r: Vec<ValueCow<'a>>)
//@ spec
    ensures
        r@ =~= window(range@, limit, offset as int, reversed),   // [C05:window_selection]
//@ prologue
    broadcast use {axiom_drain_range, axiom_drain_ok};
//@ closure 0 arg_of=map params=l
|l: usize| -> (m: usize)
    ensures m == (if l < range.len() - offset { l } else { (range.len() - offset) as usize })
//@ closure 1 arg_of=unwrap_or_else params=
|| -> (m: usize) ensures m == range.len() - offset
//@ end

proof fn lemma_window_elements<T>(s: Seq<T>, limit: Option<usize>, offset: int)
    requires 0 <= offset,
    ensures
        ({
            let o = window_offset(s.len() as int, offset);
            let l = window_len(s.len() as int, limit, offset);
            let w = window(s, limit, offset, false);
            &&& 0 <= l && o + l <= s.len()
            &&& w.len() == l
            &&& forall|k: int| 0 <= k < l ==> w[k] == s[o + k]
            &&& window(s, limit, offset, true).len() == l
            &&& forall|k: int| 0 <= k < l ==> window(s, limit, offset, true)[k] == s[o + l - 1 - k]
        }),
{
}

} // verus!
fn main() {}

use vstd::prelude::*;
use vstd::std_specs::ops::*;
verus! {

pub broadcast axiom fn axiom_f64_add_req(a: f64, b: f64)
    ensures #[trigger] a.add_req(b);

fn fl(a: f64, b: f64) -> f64 { broadcast use axiom_f64_add_req; a + b }

} // verus!
fn main() {}

//@ unit collect
//@ serves C05 C14 C02
//@ include prelude/header.rs
use vstd::std_specs::iter::*;
verus! {
//@ include prelude/error.rs
pub assume_specification<T> [<[T]>::reverse] (s: &mut [T])
    ensures final(s)@ == old(s)@.reverse();

// ---------------- assumed environment (stand-ins; trusted) ----------------
#[verifier::external_body] pub struct VId { _p: u8 }
#[verifier::external_body] pub struct KStringCow { _p: u8 }
impl KStringCow {
    pub uninterp spec fn chars(&self) -> Seq<char>;
    #[verifier::external_body]
    pub fn into_owned(self) -> (r: KString) ensures r.view() == self.chars() { unimplemented!() }
    #[verifier::external_body]
    pub fn as_str(&self) -> (r: &str) ensures r@ == self.chars() { unimplemented!() }
}
/// the value model as this function sees it: a value has an identity and at most one of the collection views
pub trait ValueView {
    spec fn vid_of(&self) -> VId;
    spec fn array_of(&self) -> Option<Seq<VId>>;
    spec fn pairs_of(&self) -> Option<Seq<(Seq<char>, VId)>>;
    spec fn state_of(&self) -> bool;
    spec fn nil_of(&self) -> bool;
    fn as_array(&self) -> (r: Option<&dyn ArrayView>)
        ensures self.array_of() is Some <==> r is Some, r matches Some(a) ==> self.array_of() == Some(a.elems());
    fn as_object(&self) -> (r: Option<&dyn ObjectView>)
        ensures self.pairs_of() is Some <==> r is Some, r matches Some(o) ==> self.pairs_of() == Some(o.pairs());
    fn is_state(&self) -> (r: bool) ensures r == self.state_of();
    fn is_nil(&self) -> (r: bool) ensures r == self.nil_of();
    fn to_value(&self) -> (r: Value) ensures r.vid() == self.vid_of(), r.nil() == self.nil_of();
    fn is_object(&self) -> (r: bool) ensures r == (self.pairs_of() is Some);
    #[verifier::external_body]
    fn type_name(&self) -> &'static str { unimplemented!() }
}
pub trait ArrayView {
    spec fn elems(&self) -> Seq<VId>;
    fn values(&self) -> (r: ValuesIter) ensures r.ids() == self.elems();
}
pub trait ObjectView {
    spec fn pairs(&self) -> Seq<(Seq<char>, VId)>;
    fn iter(&self) -> (r: PairsIter) ensures r.kv() == self.pairs();
}
/// `ObjectView::get` (extension trait, as in unit `find`: a method of ObjectView returning a ValueView would make the two
/// trait declarations cyclic). No contract: the clauses of `compact` below do not depend on which elements are kept.
pub trait ObjectMembers {
    fn get(&self, key: &str) -> (r: Option<&'static dyn ValueView>);
}
impl ObjectMembers for &dyn ObjectView {
    #[verifier::external_body]
    fn get(&self, key: &str) -> (r: Option<&'static dyn ValueView>) { unimplemented!() }
}
/// `ArrayView::values()`: Box<dyn Iterator<Item = &dyn ValueView>> in the real code
#[verifier::external_body] pub struct ValuesIter { _p: u8 }
impl ValuesIter {
    pub uninterp spec fn items(&self) -> Seq<&'static dyn ValueView>;
    pub uninterp spec fn ids(&self) -> Seq<VId>;
}
pub broadcast axiom fn axiom_values_items(it: &ValuesIter)
    ensures #[trigger] it.items().len() == it.ids().len(),
            forall|j: int| 0 <= j < it.ids().len() ==> (#[trigger] it.items()[j]).vid_of() == it.ids()[j];
impl Iterator for ValuesIter {
    type Item = &'static dyn ValueView;
    #[verifier::external_body]
    fn next(&mut self) -> (r: Option<&'static dyn ValueView>)
        ensures old(self).items().len() == 0 ==> r is None && final(self).items() == old(self).items(),
                old(self).items().len() > 0 ==> r == Some(old(self).items()[0]) && final(self).items() == old(self).items().drop_first(),
    { unimplemented!() }
}
impl IteratorSpecImpl for ValuesIter {
    open spec fn obeys_prophetic_iter_laws(&self) -> bool { true }
    open spec fn remaining(&self) -> Seq<&'static dyn ValueView> { self.items() }
    open spec fn will_return_none(&self) -> bool { true }
    open spec fn decrease(&self) -> Option<nat> { Some(self.items().len()) }
    open spec fn peek(&self, i: int) -> Option<&'static dyn ValueView> { if 0 <= i < self.items().len() { Some(self.items()[i]) } else { None } }
}
/// `ObjectView::iter()`: Box<dyn Iterator<Item = (KStringCow, &dyn ValueView)>>
#[verifier::external_body] pub struct PairsIter { _p: u8 }
impl PairsIter {
    pub uninterp spec fn items(&self) -> Seq<(KStringCow, &'static dyn ValueView)>;
    pub uninterp spec fn kv(&self) -> Seq<(Seq<char>, VId)>;
}
pub broadcast axiom fn axiom_pairs_items(it: &PairsIter)
    ensures #[trigger] it.items().len() == it.kv().len(),
            forall|j: int| 0 <= j < it.kv().len() ==> (#[trigger] it.items()[j]).0.chars() == it.kv()[j].0 && it.items()[j].1.vid_of() == it.kv()[j].1;
impl Iterator for PairsIter {
    type Item = (KStringCow, &'static dyn ValueView);
    #[verifier::external_body]
    fn next(&mut self) -> (r: Option<(KStringCow, &'static dyn ValueView)>)
        ensures old(self).items().len() == 0 ==> r is None && final(self).items() == old(self).items(),
                old(self).items().len() > 0 ==> r == Some(old(self).items()[0]) && final(self).items() == old(self).items().drop_first(),
    { unimplemented!() }
}
impl IteratorSpecImpl for PairsIter {
    open spec fn obeys_prophetic_iter_laws(&self) -> bool { true }
    open spec fn remaining(&self) -> Seq<(KStringCow, &'static dyn ValueView)> { self.items() }
    open spec fn will_return_none(&self) -> bool { true }
    open spec fn decrease(&self) -> Option<nat> { Some(self.items().len()) }
    open spec fn peek(&self, i: int) -> Option<(KStringCow, &'static dyn ValueView)> { if 0 <= i < self.items().len() { Some(self.items()[i]) } else { None } }
}
/// Value as this function builds it: a text scalar, a two-element array, or something else with an identity
#[verifier::external_body] pub struct Value { _p: u8 }
impl Value {
    pub uninterp spec fn vid(&self) -> VId;
    pub uninterp spec fn nil(&self) -> bool;
    pub uninterp spec fn text(&self) -> Option<Seq<char>>;
    pub uninterp spec fn arr(&self) -> Option<Seq<Value>>;
    #[verifier::external_body]
    pub fn scalar(k: KString) -> (r: Value) ensures r.text() == Some(k.view()), r.arr() is None { unimplemented!() }
    /// the enum constructor `Value::Array(vec)`
    #[allow(non_snake_case)]
    #[verifier::external_body]
    pub fn Array(v: Vec<Value>) -> (r: Value) ensures r.arr() == Some(v@), r.text() is None { unimplemented!() }
}
impl Value {
    /// `Value::array(iter)` on a Vec
    #[verifier::external_body]
    pub fn array(v: Vec<Value>) -> (r: Value) ensures r.arr() == Some(v@), r.text() is None { unimplemented!() }
}
/// ValueCow: owned or borrowed; `what()` says which value it stands for
pub enum ValueCow { Owned(Value), Borrowed(&'static dyn ValueView) }
impl From<Value> for ValueCow {
    #[verifier::external_body]
    fn from(v: Value) -> (r: ValueCow) ensures r == ValueCow::Owned(v) { unimplemented!() }
}
#[verifier::external_body]
fn unexpected_value_error<S>(expected: &str, actual: Option<S>) -> Error { unimplemented!() }

/// element i of what a loop iterates over when the collection is an object: the two-element array [key_i, value_i]
pub open spec fn is_pair(c: ValueCow, kv: (Seq<char>, VId)) -> bool {
    c matches ValueCow::Owned(v) && (v.arr() matches Some(a) && a.len() == 2 && a[0].text() == Some(kv.0) && a[1].vid() == kv.1)
}

//@ item crates/lib/src/stdlib/blocks/for_block.rs :: fn get_array
//@ props C05 C02
//@ sig fn get_array(array: &'static dyn ValueView) -> (r: Result<Vec<ValueCow>>)
//@ spec
    ensures
        // an array: its elements, in order, borrowed
        array.array_of() matches Some(e) ==> (r matches Ok(v) && v@.len() == e.len()
            && forall|i: int| 0 <= i < v@.len() ==> (#[trigger] v@[i] matches ValueCow::Borrowed(x) && x.vid_of() == e[i])),        // [C05:array_is_iterated_by_its_elements_in_order]
        // an object: one [key, value] pair per member, in the object's order
        (array.array_of() is None && array.pairs_of() is Some) ==> (r matches Ok(v) && v@.len() == array.pairs_of()->0.len()
            && forall|i: int| 0 <= i < v@.len() ==> is_pair(#[trigger] v@[i], array.pairs_of()->0[i])),                               // [C05:object_is_iterated_as_key_value_pairs]
        // nil and the empty / blank states: nothing to iterate
        (array.array_of() is None && array.pairs_of() is None && (array.state_of() || array.nil_of())) ==> (r matches Ok(v) && v@.len() == 0),   // [C05:nil_and_states_are_empty_collections]
        // anything else cannot be iterated: an error, not an empty loop
        (array.array_of() is None && array.pairs_of() is None && !array.state_of() && !array.nil_of()) ==> r is Err,               // [C05:a_scalar_is_not_a_collection]
//@ editall <<.map(ValueCow::Borrowed)>> => <<.map(|__v: &'static dyn ValueView| -> (__c: ValueCow) ensures __c == ValueCow::Borrowed(__v), { ValueCow::Borrowed(__v) })>> why: eta-expansion; Verus has no datatype constructors as function values
//@ closure 0 arg_of=map params=(k,v)
|__kv: (KStringCow, &'static dyn ValueView)| -> (c: ValueCow) ensures is_pair(c, (__kv.0.chars(), __kv.1.vid_of()))
//@ prologue
    broadcast use axiom_values_items, axiom_pairs_items;
//@ editre <<\{\s*let k = k\.into_owned\(\);>> => <<{ let (k, v) = __kv; let k = k.into_owned();>> why: Verus supports only variables as closure parameters; the tuple pattern `|(k, v)|` is moved into a `let` at the top of the closure body
//@ end

// ---------------- reverse ----------------
pub struct ReverseFilter;
pub trait Runtime { }
impl ReverseFilter {
//@ item crates/lib/src/stdlib/filters/array.rs :: impl Filter for ReverseFilter::evaluate
//@ props C14 C02
//@ sig fn evaluate(&self, input: &'static dyn ValueView, _runtime: &dyn Runtime) -> (r: Result<Value>)
//@ spec
    ensures
        // "reverse returns a permutation of its input": element i of the result is element n-1-i of the input
        input.array_of() matches Some(e) ==> (r matches Ok(v) && (v.arr() matches Some(a) && a.len() == e.len()
            && forall|i: int| 0 <= i < a.len() ==> (#[trigger] a[i]).vid() == e[e.len() - 1 - i])),                   // [C14:reverse_is_the_mirror_image]
        input.array_of() is None ==> r is Err,                                                                         // [C14:reverse_needs_an_array]
//@ closure 0 arg_of=ok_or_else params=
|| -> (e: Error)
//@ closure 1 arg_of=map params=v
|v: &'static dyn ValueView| -> (o: Value) ensures o.vid() == v.vid_of()
//@ prologue
    broadcast use axiom_values_items;
//@ end
}

// ---------------- compact ----------------
/// derive(FilterParameters) output for `PropertyArgs` (assumed: evaluation yields the optional property name or an error)
pub struct PropertyArgs { _p: u8 }
pub struct EvaluatedPropertyArgs { pub property: Option<KStringCow> }
impl PropertyArgs {
    #[verifier::external_body]
    pub fn evaluate(&self, runtime: &dyn Runtime) -> (r: Result<EvaluatedPropertyArgs>) { unimplemented!() }
}
pub struct CompactFilter { pub args: PropertyArgs }
impl CompactFilter {
//@ item crates/lib/src/stdlib/filters/array.rs :: impl Filter for CompactFilter::evaluate
//@ props C14 C02
//@ sig fn evaluate(&self, input: &'static dyn ValueView, runtime: &dyn Runtime) -> (r: Result<Value>)
//@ spec
    ensures
        input.array_of() is None ==> r is Err,                                                                         // [C14:compact_needs_an_array]
        // "compact removes exactly the nils", the half the iterator contracts of vstd carry: whatever the result is,
        // it is an array that holds no element the input does not hold, and is not longer
        r matches Ok(v) ==> (input.array_of() matches Some(e) && v.arr() matches Some(a) && a.len() <= e.len()
            && forall|i: int| 0 <= i < a.len() ==> e.contains((#[trigger] a[i]).vid())),                               // [C14:compact_invents_no_element]
//@ closure 0 arg_of=ok_or_else params=
|| -> (e: Error)
//@ closure 1 arg_of=all params=v
|v: &'static dyn ValueView| -> (b: bool) ensures b == (v.pairs_of() is Some)
//@ closure 2 arg_of=filter params=v
|v: &&'static dyn ValueView| -> (b: bool)
//@ closure 3 arg_of=and_then params=obj
|obj: &dyn ObjectView| -> (m: Option<&'static dyn ValueView>)
//@ closure 4 arg_of=map params=v
|v: &'static dyn ValueView| -> (b: bool) ensures b == v.nil_of()
//@ closure 5 arg_of=map params=v
|v: &'static dyn ValueView| -> (o: Value) ensures o.vid() == v.vid_of(), o.nil() == v.nil_of()
//@ closure 6 arg_of=filter params=v
|v: &&'static dyn ValueView| -> (b: bool) ensures b == !v.nil_of()
//@ closure 7 arg_of=map params=v
|v: &'static dyn ValueView| -> (o: Value) ensures o.vid() == v.vid_of(), o.nil() == v.nil_of()
//@ prologue
    broadcast use axiom_values_items;
//@ end
}
} // verus!
fn main() {}

// ---------------- assumed environment: errors, the ghost output sink, Renderable/Runtime (stand-ins; trusted) ----------------
/// identity of a renderable node (what a `Child` event names)
#[verifier::external_body]
pub struct RId { _p: u8 }

/// One observable step of rendering, at the nesting level of the function under contract:
///   Write(fmt)  - one `write!(writer, fmt, ..)` accepted by the sink (the formatted bytes are abstracted to the format string)
///   Child(id, rt)   - one complete, successful `render_to` of the child node `id` in the runtime (scope) `rt` (whatever it wrote)
///   Partial(id, rt) - a child `render_to` that returned Err after writing a (possibly empty) prefix of its output
///   Raw(n)      - a direct `io::Write::write` call that accepted n bytes of what it was offered (possibly fewer than all)
///   RawAll      - a direct `write_all` call that was accepted completely
pub enum Ev { Write(Seq<char>), Child(RId, RtId), Partial(RId, RtId), Raw(nat), RawAll(Seq<u8>) }

/// Ghost model of `&mut dyn io::Write`: `log` = events accepted so far, `failed` = a write has failed.
pub struct Sink { pub log: Ghost<Seq<Ev>>, pub failed: Ghost<bool> }

/// one `write!`: requires that no earlier write failed (=> "performs no further writes" is a precondition
/// violation), appends exactly one chunk or fails without appending  (short counts are `write_all`'s business inside std)
#[verifier::external_body]
pub fn sink_write(w: &mut Sink, fmt: &'static str) -> (r: core::result::Result<(), IoError>)
    requires !old(w).failed@,                                                            // [C10:no_write_after_failure]
    ensures
        r is Ok ==> !final(w).failed@ && final(w).log@ == old(w).log@.push(Ev::Write(fmt@)),
        r is Err ==> final(w).failed@ && final(w).log@ == old(w).log@,
{ unimplemented!() }

/// a private in-memory buffer (`Vec::new()` used as a sink by capture / ifchanged): it never fails
pub struct BufString { pub log: Ghost<Seq<Ev>> }
pub uninterp spec fn buf_chars(log: Seq<Ev>) -> Seq<char>;
impl Sink {
    #[verifier::external_body]
    pub fn buffer() -> (r: Sink) ensures !r.failed@, r.log@ == Seq::<Ev>::empty() { unimplemented!() }
    /// `String::from_utf8(buffer).expect(..)`: the text that was rendered into the buffer
    #[verifier::external_body]
    pub fn into_string(self) -> (r: BufString) ensures r.log@ == self.log@ { unimplemented!() }
}
/// the io::Write methods themselves, for code that bypasses `write!`
impl Sink {
    #[verifier::external_body]
    pub fn write(&mut self, buf: &[u8]) -> (r: core::result::Result<usize, IoError>)
        requires !old(self).failed@,                                                         // [C10:no_write_after_failure]
        ensures
            r matches Ok(n) ==> n <= buf@.len() && !final(self).failed@ && final(self).log@ == old(self).log@.push(Ev::Raw(n as nat)),
            r is Err ==> final(self).failed@ && final(self).log@ == old(self).log@,
    { unimplemented!() }
    #[verifier::external_body]
    pub fn write_all(&mut self, buf: &[u8]) -> (r: core::result::Result<(), IoError>)
        requires !old(self).failed@,                                                         // [C10:no_write_after_failure]
        ensures
            r is Ok ==> !final(self).failed@ && final(self).log@ == old(self).log@.push(Ev::RawAll(buf@)),
            r is Err ==> final(self).failed@,
    { unimplemented!() }
    #[verifier::external_body]
    pub fn flush(&mut self) -> (r: core::result::Result<(), IoError>)
        ensures r is Ok ==> final(self).failed@ == old(self).failed@, final(self).log@ == old(self).log@,
                r is Err ==> final(self).failed@,
    { unimplemented!() }
}
pub trait ResultLiquidReplaceExt<T> {
    fn replace(self, msg: &'static str) -> (r: Result<T>);
}
impl<T> ResultLiquidReplaceExt<T> for core::result::Result<T, IoError> {
    #[verifier::external_body]
    fn replace(self, msg: &'static str) -> (r: Result<T>)
        ensures r is Ok == self is Ok, (r matches Ok(v) ==> self matches Ok(w) && v == w),
    { unimplemented!() }
}
/// error-decorating adapters of liquid_core::error::ResultLiquidExt: they never turn Err into Ok or change an Ok value
pub struct KeyedResult<T> { pub r: Result<T> }
pub trait ResultLiquidExt<T>: Sized {
    fn trace(self, trace: &'static str) -> (r: Result<T>);
    fn trace_with<F: FnOnce() -> KString>(self, trace: F) -> (r: Result<T>);
    fn context_key(self, key: &'static str) -> (r: KeyedResult<T>);
    fn context_key_with<F: FnOnce() -> KString>(self, key: F) -> (r: KeyedResult<T>);
}
impl<T> ResultLiquidExt<T> for Result<T> {
    #[verifier::external_body]
    fn trace(self, trace: &'static str) -> (r: Result<T>)
        ensures r is Ok == self is Ok, (r matches Ok(v) ==> self matches Ok(w) && v == w) { unimplemented!() }
    #[verifier::external_body]
    fn trace_with<F: FnOnce() -> KString>(self, trace: F) -> (r: Result<T>)
        ensures r is Ok == self is Ok, (r matches Ok(v) ==> self matches Ok(w) && v == w) { unimplemented!() }
    #[verifier::external_body]
    fn context_key(self, key: &'static str) -> (r: KeyedResult<T>) ensures r.r == self { unimplemented!() }
    #[verifier::external_body]
    fn context_key_with<F: FnOnce() -> KString>(self, key: F) -> (r: KeyedResult<T>) ensures r.r == self { unimplemented!() }
}
impl<T> KeyedResult<T> {
    #[verifier::external_body]
    pub fn value_with<F: FnOnce() -> KString>(self, value: F) -> (r: Result<T>)
        ensures r is Ok == self.r is Ok, (r matches Ok(v) ==> self.r matches Ok(w) && v == w) { unimplemented!() }
}

/// Contract of every `Renderable::render_to` as its *caller* sees it (C10):
///   - it is only entered with a sink that has not failed,
///   - Ok  => the sink has not failed and exactly one `Child(self)` event was appended,
///   - Err => what was there before is still there (a prefix), at most a `Partial(self)` event was appended,
///   - a failed sink always surfaces as Err.
pub trait Renderable {
    spec fn rid(&self) -> RId;
    fn render_to(&self, writer: &mut Sink, runtime: &dyn Runtime) -> (r: Result<()>)
        requires !old(writer).failed@,                                                               // [C10:no_write_after_failure]
                 runtime.writable(),                                                                  // [C02:scope_has_assignment_and_counter_layers]
        ensures
            r is Ok ==> !final(writer).failed@ && final(writer).log@ == old(writer).log@.push(Ev::Child(self.rid(), runtime.ident())),
            r is Err ==> (final(writer).log@ == old(writer).log@ || final(writer).log@ == old(writer).log@.push(Ev::Partial(self.rid(), runtime.ident()))),
            final(writer).failed@ ==> r is Err;
}
/// the same contract written as a predicate, for the concrete node types
pub open spec fn renders_as_child(id: RId, rt: RtId, pre: Sink, post: Sink, r: Result<()>) -> bool {
    &&& (r is Ok ==> !post.failed@ && post.log@ == pre.log@.push(Ev::Child(id, rt)))
    &&& (r is Err ==> (post.log@ == pre.log@ || post.log@ == pre.log@.push(Ev::Partial(id, rt))))
    &&& (post.failed@ ==> r is Err)
}
/// what every function that writes to the sink owes its caller, in terms of its own events (C10):
/// a failed sink is reported as Err, nothing already written is lost, and Ok implies the sink is still healthy
pub open spec fn sink_safe(pre: Sink, post: Sink, r: Result<()>) -> bool {
    &&& (post.failed@ ==> r is Err)
    &&& pre.log@.is_prefix_of(post.log@)
    &&& (r is Ok ==> !post.failed@)
}

//@ unit cond
//@ serves C06 C10 C02
//@ include prelude/header.rs
use core::cmp::Ordering;
verus! {
//@ include prelude/error.rs
//@ include prelude/runtime.rs
//@ include prelude/value.rs
//@ include prelude/render.rs
//@ include prelude/expr.rs

/// runtime::Template as its callers see it: the generic Renderable contract (proved for the real body in unit `sink`,
/// where the same clauses appear as sink_safe + the element trace)
#[verifier::external_body]
pub struct Template { _p: u8 }
impl Template {
    pub uninterp spec fn rid(&self) -> RId;
    #[verifier::external_body]
    pub fn render_to(&self, writer: &mut Sink, runtime: &dyn Runtime) -> (r: Result<()>)
        requires !old(writer).failed@,                                                      // [C10:no_write_after_failure]
                 runtime.writable(),
        ensures renders_as_child(self.rid(), runtime.ident(), *old(writer), *final(writer), r)
    { unimplemented!() }
}
#[verifier::external_body]
pub fn unexpected_value_error(expected: &str, actual: Option<&'static str>) -> Error { unimplemented!() }
}
//@ include prelude/render_macros.rs
verus! {

// ---------------- if / unless ----------------
//@ item crates/lib/src/stdlib/blocks/if_block.rs :: enum ComparisonOperator
//@ kind enum
//@ end
//@ item crates/lib/src/stdlib/blocks/if_block.rs :: struct ExistenceCondition
//@ kind struct
//@ end
//@ item crates/lib/src/stdlib/blocks/if_block.rs :: struct BinaryCondition
//@ kind struct
//@ end
//@ item crates/lib/src/stdlib/blocks/if_block.rs :: enum Condition
//@ kind enum
//@ end
//@ item crates/lib/src/stdlib/blocks/if_block.rs :: struct Conditional
//@ kind struct
//@ end

/// `contains` on value identities (string containment / key membership / element equality): the real `contains_check`
/// is proved against exactly this contract shape in unit `contains` (there `contains_sem`, defined case by case)
pub uninterp spec fn contains_spec(a: VId, b: VId) -> Option<bool>;
#[verifier::external_body]
fn contains_check(a: &dyn ValueView, b: &dyn ValueView) -> (r: Result<bool>)
    ensures r matches Ok(x) ==> contains_spec(a.vid_of(), b.vid_of()) == Some(x),
            r is Err ==> contains_spec(a.vid_of(), b.vid_of()) is None
{ unimplemented!() }

pub open spec fn le(a: VId, b: VId) -> bool { vcmp(a, b) == Some(Ordering::Less) || vcmp(a, b) == Some(Ordering::Equal) }
pub open spec fn ge(a: VId, b: VId) -> bool { vcmp(a, b) == Some(Ordering::Greater) || vcmp(a, b) == Some(Ordering::Equal) }

impl ExistenceCondition {
    /// "a bare value is true unless it is nil or false (an undefined name counts as nil)"
    spec fn sem(&self, rt: &dyn Runtime) -> bool {
        truthy(match self.lh.denotes(rt) { Some(v) => v, None => nil_vid() })
    }
//@ item crates/lib/src/stdlib/blocks/if_block.rs :: impl ExistenceCondition::evaluate
//@ props C06 C02
//@ sig fn evaluate(&self, runtime: &dyn Runtime) -> (r: Result<bool>)
//@ spec
    ensures
        r matches Ok(b) && b == self.sem(runtime),        // [C06:bare_value_truthiness_undefined_is_nil]
//@ end
}

impl BinaryCondition {
    /// None: an operand does not exist, or `contains` is applied to something that cannot contain
    spec fn sem(&self, rt: &dyn Runtime) -> Option<bool> {
        match (self.lh.denotes(rt), self.rh.denotes(rt)) {
            (Some(a), Some(b)) => match self.comparison {
                ComparisonOperator::Equals => Some(veq(a, b)),
                ComparisonOperator::NotEquals => Some(!veq(a, b)),
                ComparisonOperator::LessThan => Some(vcmp(a, b) == Some(Ordering::Less)),
                ComparisonOperator::GreaterThan => Some(vcmp(a, b) == Some(Ordering::Greater)),
                ComparisonOperator::LessThanEquals => Some(le(a, b)),
                ComparisonOperator::GreaterThanEquals => Some(ge(a, b)),
                ComparisonOperator::Contains => contains_spec(a, b),
            },
            _ => None,
        }
    }
//@ item crates/lib/src/stdlib/blocks/if_block.rs :: impl BinaryCondition::evaluate
//@ props C06 C02
//@ sig fn evaluate(&self, runtime: &dyn Runtime) -> (r: Result<bool>)
//@ spec
    ensures
        r matches Ok(b) ==> self.sem(runtime) == Some(b),     // [C06:operators_agree_with_value_model]
        r is Err ==> self.sem(runtime) is None,               // [C06:comparison_fails_only_on_missing_operand]
//@ end
}

impl Condition {
    /// `and` / `or` over the atoms; None as soon as a needed atom fails (left to right, short-circuit)
    spec fn sem(&self, rt: &dyn Runtime) -> Option<bool>
        decreases self
    {
        match *self {
            Condition::Binary(c) => c.sem(rt),
            Condition::Existence(c) => Some(c.sem(rt)),
            Condition::Conjunction(left, right) => match left.sem(rt) {
                None => None,
                Some(false) => Some(false),
                Some(true) => right.sem(rt),
            },
            Condition::Disjunction(left, right) => match left.sem(rt) {
                None => None,
                Some(true) => Some(true),
                Some(false) => right.sem(rt),
            },
        }
    }
//@ item crates/lib/src/stdlib/blocks/if_block.rs :: impl Condition::evaluate
//@ props C06 C02
//@ sig fn evaluate(&self, runtime: &dyn Runtime) -> (r: Result<bool>)
//@ spec
    ensures
        r matches Ok(b) ==> self.sem(runtime) == Some(b),     // [C06:and_or_semantics]
        r is Err ==> self.sem(runtime) is None,
    decreases self,
//@ end
}

impl Conditional {
    #[verifier::external_body]
    fn trace(&self) -> String { unimplemented!() }
    pub uninterp spec fn rid(&self) -> RId;
//@ item crates/lib/src/stdlib/blocks/if_block.rs :: impl Conditional::compare
//@ props C06 C02
//@ sig fn compare(&self, runtime: &dyn Runtime) -> (r: Result<bool>)
//@ spec
    ensures
        r matches Ok(b) ==> (self.condition.sem(runtime) matches Some(c) && b == (c == self.mode)),    // [C06:unless_is_negated_if]
        r is Err ==> self.condition.sem(runtime) is None,
//@ end

//@ item crates/lib/src/stdlib/blocks/if_block.rs :: impl Renderable for Conditional::render_to
//@ props C06 C10 C02
//@ sig fn render_to(&self, writer: &mut Sink, runtime: &dyn Runtime) -> (r: Result<()>)
//@ spec
    requires !old(writer).failed@,
        runtime.writable(),                                                            // [C02:scope_has_assignment_and_counter_layers]
    ensures
        sink_safe(*old(writer), *final(writer), r),                                              // [C10:conditional_failed_sink_is_error]
        // exactly one branch: the true branch iff condition == mode, else the else branch if there is one, else nothing
        r is Ok ==> (self.condition.sem(runtime) matches Some(c) && final(writer).log@ =~= old(writer).log@ + (
            if c == self.mode { seq![Ev::Child(self.if_true.rid(), runtime.ident())] }
            else { match self.if_false { Some(t) => seq![Ev::Child(t.rid(), runtime.ident())], None => Seq::<Ev>::empty() } })),      // [C06:exactly_one_branch]
        // on error nothing but (a prefix of) the chosen branch was written
        r is Err ==> (final(writer).log@ == old(writer).log@
            || (self.condition.sem(runtime) matches Some(c) && final(writer).log@ == old(writer).log@.push(Ev::Partial(
                if c == self.mode { self.if_true.rid() } else { match self.if_false { Some(t) => t.rid(), None => self.if_true.rid() } }, runtime.ident())))),   // [C06:error_touches_only_chosen_branch]
//@ end
}

// ---------------- case / when ----------------
//@ item crates/lib/src/stdlib/blocks/case_block.rs :: struct CaseOption
//@ kind struct
//@ end
//@ item crates/lib/src/stdlib/blocks/case_block.rs :: struct Case
//@ kind struct
//@ end

/// does any of the arm's values equal `val`?  None: evaluating one of the values (before a hit) failed
spec fn first_hit(args: Seq<Expression>, val: VId, rt: &dyn Runtime, from: int) -> Option<bool>
    decreases args.len() - from
{
    if from < 0 || from >= args.len() { Some(false) }
    else { match args[from].denotes(rt) {
        None => None,
        Some(v) => if veq(v, val) { Some(true) } else { first_hit(args, val, rt, from + 1) },
    } }
}
impl CaseOption {
    #[verifier::external_body]
    fn trace(&self) -> String { unimplemented!() }
    spec fn hit(&self, val: VId, rt: &dyn Runtime) -> Option<bool> { first_hit(self.args@, val, rt, 0) }
//@ item crates/lib/src/stdlib/blocks/case_block.rs :: impl CaseOption::evaluate
//@ props C06 C02
//@ sig fn evaluate(&self, value: &dyn ValueView, runtime: &dyn Runtime) -> (r: Result<bool>)
//@ spec
    ensures
        r matches Ok(b) ==> self.hit(value.vid_of(), runtime) == Some(b),        // [C06:when_matches_by_value_equality]
        r is Err ==> self.hit(value.vid_of(), runtime) is None,
//@ editre <<for (\w+) in &self\.args>> => <<for \1 in it: &self.args>> why: names Verus' ghost iterator so that the invariant can refer to the position
//@ loop 0 kind=for
    invariant
        0 <= it.index@ <= self.args@.len(),
        first_hit(self.args@, value.vid_of(), runtime, 0) == first_hit(self.args@, value.vid_of(), runtime, it.index@),
//@ end
}

/// the arm `case` selects: Some(Some(k)) = first arm (in order) with a hit, Some(None) = no arm hits, None = an error came first
spec fn first_arm(cases: Seq<CaseOption>, val: VId, rt: &dyn Runtime, from: int) -> Option<Option<int>>
    decreases cases.len() - from
{
    if from < 0 || from >= cases.len() { Some(None) }
    else { match cases[from].hit(val, rt) {
        None => None,
        Some(true) => Some(Some(from)),
        Some(false) => first_arm(cases, val, rt, from + 1),
    } }
}
impl Case {
    #[verifier::external_body]
    fn trace(&self) -> String { unimplemented!() }
//@ item crates/lib/src/stdlib/blocks/case_block.rs :: impl Renderable for Case::render_to
//@ props C06 C10 C02
//@ sig fn render_to(&self, writer: &mut Sink, runtime: &dyn Runtime) -> (r: Result<()>)
//@ spec
    requires !old(writer).failed@,
        runtime.writable(),                                                            // [C02:scope_has_assignment_and_counter_layers]
    ensures
        sink_safe(*old(writer), *final(writer), r),                                              // [C10:case_failed_sink_is_error]
        // exactly one branch: the first arm with an equal value, otherwise the else block, otherwise nothing
        r is Ok ==> (self.target.denotes(runtime) matches Some(val) && (match first_arm(self.cases@, val, runtime, 0) {
            Some(Some(k)) => final(writer).log@ == old(writer).log@.push(Ev::Child(self.cases@[k].template.rid(), runtime.ident())),
            Some(None) => match self.else_block {
                Some(t) => final(writer).log@ == old(writer).log@.push(Ev::Child(t.rid(), runtime.ident())),
                None => final(writer).log@ == old(writer).log@ },
            None => false })),                                                                    // [C06:case_first_matching_arm_else_else]
//@ editre <<for (\w+) in &self\.cases>> => <<for \1 in it: &self.cases>> why: names Verus' ghost iterator so that the invariant can refer to the position
//@ loop 0 kind=for
    invariant
        0 <= it.index@ <= self.cases@.len(),
        !writer.failed@, runtime.writable(), writer.log@ == old(writer).log@,
        self.target.denotes(runtime) == Some(value.vid()),
        first_arm(self.cases@, value.vid(), runtime, 0) == first_arm(self.cases@, value.vid(), runtime, it.index@),
//@ end
}

} // verus!
fn main() {}

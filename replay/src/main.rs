//! replay: run witnesses against the REAL liquid-rust code (path dependency on /repo).
//!
//!   replay <file.json>    file is a witness object, or a replay file with a "witness" key
//!   replay --stdin        read a JSON array of witnesses on stdin; print one JSON result per line
//!
//! witness kinds
//!   {"kind":"render","template":T,"data":{..},"partials":{name:src,..},"expect":E}
//!        E = {"output":S} | {"error":true} | {"no_panic":true} | {"output_or_error":S} | {"one_of":[S,..]} |
//!            {"number":{"exact":"<int>","fits":bool}}   (C15: integer result exact, or float/err when it does not fit)
//!   {"kind":"render_same","templates":[T1,T2],"data":{..}}     both render to the same result (law-style clauses)
//!   {"kind":"sink_faults","template":T,"data":{..},"partials":{..}}    C10: failing / short-writing sinks at every write
//!   {"kind":"stack_model","depth":N}     C18/C04: the runtime stack types against an abstract stack-of-maps model
//! exit 0: the real code behaves as the witness expects (property holds on this input)
//! exit 1: it does not (the witness is a failing input)      exit 3: bad replay file
use std::io::Write;
use std::panic;

type Res = Result<Result<String, String>, String>; // Err(panic) | Ok(Err(liquid error)) | Ok(Ok(output))

fn build_parser(partials: Option<&serde_json::Value>) -> Result<liquid::Parser, String> {
    build_parser_policy(partials, "eager")
}

fn build_parser_policy(partials: Option<&serde_json::Value>, policy: &str) -> Result<liquid::Parser, String> {
    let b = liquid::ParserBuilder::with_stdlib();
    if let Some(serde_json::Value::Object(m)) = partials {
        let mut src = liquid::partials::InMemorySource::new();
        for (k, v) in m {
            src.add(k.clone(), v.as_str().unwrap_or("").to_owned());
        }
        return match policy {
            "lazy" => b.partials(liquid::partials::LazyCompiler::new(src)).build(),
            "ondemand" => b.partials(liquid::partials::OnDemandCompiler::new(src)).build(),
            _ => b.partials(liquid::partials::EagerCompiler::new(src)).build(),
        }
        .map_err(|e| format!("parser: {e}"));
    }
    b.build().map_err(|e| format!("parser: {e}"))
}

fn panic_msg(p: Box<dyn std::any::Any + Send>) -> String {
    if let Some(s) = p.downcast_ref::<&str>() {
        s.to_string()
    } else if let Some(s) = p.downcast_ref::<String>() {
        s.clone()
    } else {
        "panic".to_string()
    }
}

fn render(template: &str, data: &serde_json::Value, partials: Option<&serde_json::Value>) -> Res {
    let template = template.to_owned();
    let data = data.clone();
    let partials = partials.cloned();
    let r = panic::catch_unwind(move || {
        let parser = build_parser(partials.as_ref())?;
        let t = parser.parse(&template).map_err(|e| format!("parse: {e}"))?;
        let globals: liquid::Object = serde_json::from_value(data).map_err(|e| format!("data: {e}"))?;
        t.render(&globals).map_err(|e| format!("render: {e}"))
    });
    match r {
        Ok(x) => Ok(x),
        Err(p) => Err(panic_msg(p)),
    }
}

fn show(res: &Res) -> String {
    match res {
        Ok(Ok(s)) => format!("output {s:?}"),
        Ok(Err(e)) => format!("error {:?}", e.lines().next().unwrap_or("")),
        Err(p) => format!("PANIC {p:?}"),
    }
}

// ---------------------------------------------------------------- C10: sinks that fail / accept short counts

/// fails on the k-th call of `write` (1-based); before that accepts everything
struct FailAt {
    k: usize,
    calls: usize,
    accepted: Vec<u8>,
    writes_after_failure: usize,
    failed: bool,
}
impl Write for FailAt {
    fn write(&mut self, buf: &[u8]) -> std::io::Result<usize> {
        self.calls += 1;
        if self.failed {
            self.writes_after_failure += 1;
            return Err(std::io::Error::new(std::io::ErrorKind::Other, "sink already failed"));
        }
        if self.calls == self.k {
            self.failed = true;
            return Err(std::io::Error::new(std::io::ErrorKind::Other, "sink failed"));
        }
        self.accepted.extend_from_slice(buf);
        Ok(buf.len())
    }
    fn flush(&mut self) -> std::io::Result<()> {
        Ok(())
    }
}
/// accepts at most `max` bytes per call; optionally fails on the k-th call
struct Short {
    max: usize,
    fail_at: Option<usize>,
    calls: usize,
    accepted: Vec<u8>,
    failed: bool,
    writes_after_failure: usize,
}
impl Write for Short {
    fn write(&mut self, buf: &[u8]) -> std::io::Result<usize> {
        self.calls += 1;
        if self.failed {
            self.writes_after_failure += 1;
            return Err(std::io::Error::new(std::io::ErrorKind::Other, "sink already failed"));
        }
        if Some(self.calls) == self.fail_at {
            self.failed = true;
            return Err(std::io::Error::new(std::io::ErrorKind::Other, "sink failed"));
        }
        let n = buf.len().min(self.max);
        self.accepted.extend_from_slice(&buf[..n]);
        Ok(n)
    }
    fn flush(&mut self) -> std::io::Result<()> {
        Ok(())
    }
}
struct Count {
    calls: usize,
    data: Vec<u8>,
}
impl Write for Count {
    fn write(&mut self, buf: &[u8]) -> std::io::Result<usize> {
        self.calls += 1;
        self.data.extend_from_slice(buf);
        Ok(buf.len())
    }
    fn flush(&mut self) -> std::io::Result<()> {
        Ok(())
    }
}

fn sink_faults(w: &serde_json::Value) -> (bool, String) {
    let t = w["template"].as_str().unwrap_or("").to_owned();
    let null = serde_json::json!({});
    let data = w.get("data").unwrap_or(&null).clone();
    let partials = w.get("partials").cloned();
    let r = panic::catch_unwind(move || -> Result<(), String> {
        let parser = build_parser(partials.as_ref())?;
        let tpl = match parser.parse(&t) {
            Ok(t) => t,
            Err(_) => return Ok(()), // not a C10 matter
        };
        let globals: liquid::Object = serde_json::from_value(data).map_err(|e| format!("data: {e}"))?;
        let reference = match tpl.render(&globals) {
            Ok(s) => s,
            Err(_) => return Ok(()), // fault-free run fails: not a C10 matter
        };
        // streaming with a sink that never fails == buffering render
        let mut c = Count { calls: 0, data: vec![] };
        tpl.render_to(&mut c, &globals).map_err(|e| format!("render_to into a healthy sink failed: {e}"))?;
        if c.data != reference.as_bytes() {
            return Err(format!("streamed bytes {:?} differ from render() {:?}", String::from_utf8_lossy(&c.data), reference));
        }
        let writes = c.calls;
        for k in 1..=writes {
            let mut s = FailAt { k, calls: 0, accepted: vec![], writes_after_failure: 0, failed: false };
            let r = tpl.render_to(&mut s, &globals);
            if r.is_ok() {
                return Err(format!("sink failed on write {k} of {writes} but render_to returned Ok"));
            }
            if s.writes_after_failure > 0 {
                return Err(format!("sink failed on write {k} of {writes}; {} further write(s) were attempted", s.writes_after_failure));
            }
            if !reference.as_bytes().starts_with(&s.accepted) {
                return Err(format!("sink failed on write {k}: accepted bytes {:?} are not a prefix of {:?}", String::from_utf8_lossy(&s.accepted), reference));
            }
        }
        // short counts, never failing: all bytes must still arrive, in order
        for max in [1usize, 3] {
            let mut s = Short { max, fail_at: None, calls: 0, accepted: vec![], failed: false, writes_after_failure: 0 };
            tpl.render_to(&mut s, &globals).map_err(|e| format!("render_to into a short-writing sink failed: {e}"))?;
            if s.accepted != reference.as_bytes() {
                return Err(format!("sink accepting {max} byte(s) per call received {:?}, render() gives {:?}", String::from_utf8_lossy(&s.accepted), reference));
            }
        }
        // short count then failure
        let total_calls = {
            let mut s = Short { max: 1, fail_at: None, calls: 0, accepted: vec![], failed: false, writes_after_failure: 0 };
            let _ = tpl.render_to(&mut s, &globals);
            s.calls
        };
        for k in 1..=total_calls.min(40) {
            let mut s = Short { max: 1, fail_at: Some(k), calls: 0, accepted: vec![], failed: false, writes_after_failure: 0 };
            let r = tpl.render_to(&mut s, &globals);
            if r.is_ok() {
                return Err(format!("short-writing sink failed on call {k} but render_to returned Ok"));
            }
            if s.writes_after_failure > 0 {
                return Err(format!("short-writing sink failed on call {k}; further writes were attempted"));
            }
            if !reference.as_bytes().starts_with(&s.accepted) {
                return Err(format!("short-writing sink failed on call {k}: accepted bytes are not a prefix of the fault-free output"));
            }
        }
        Ok(())
    });
    match r {
        Ok(Ok(())) => (true, "all sink faults handled".to_string()),
        Ok(Err(e)) => (false, e),
        Err(p) => (false, format!("PANIC {:?}", panic_msg(p))),
    }
}

// ---------------------------------------------------------------- C18 / C04: runtime stack against a stack-of-maps model
mod stack_model {
    use liquid_core::model::{Object, Scalar, Value, ValueView};
    use liquid_core::runtime::{GlobalFrame, RuntimeBuilder, SandboxedStackFrame, StackFrame};
    use liquid_core::Runtime;
    use std::collections::BTreeMap;

    #[derive(Clone, Debug, PartialEq)]
    pub enum V {
        S(i64),
        O(BTreeMap<&'static str, i64>),
    }
    pub type M = BTreeMap<&'static str, V>;
    #[derive(Clone, Debug)]
    pub enum Layer {
        Scope(M),
        Sandbox(M),
        Global,
    }
    const NAMES: [&str; 2] = ["a", "b"];

    fn to_object(m: &M) -> Object {
        let mut o = Object::new();
        for (k, v) in m {
            let val = match v {
                V::S(i) => Value::scalar(*i),
                V::O(inner) => {
                    let mut io = Object::new();
                    for (ik, iv) in inner {
                        io.insert((*ik).into(), Value::scalar(*iv));
                    }
                    Value::Object(io)
                }
            };
            o.insert((*k).into(), val);
        }
        o
    }
    fn model_find(v: &V, rest: &[&'static str]) -> Option<String> {
        match (v, rest) {
            (V::S(i), []) => Some(format!("{i}")),
            (V::O(_), []) => Some("<obj>".to_string()),
            (V::O(m), [k]) => m.get(k).map(|i| format!("{i}")),
            _ => None,
        }
    }
    /// model state: base data, globals assigned per global layer (index 0 = the builder's), counters
    pub struct Model {
        pub base: M,
        pub layers: Vec<Layer>,
        pub globals: Vec<M>, // globals[0] builder's layer; one more per Layer::Global, in push order
        pub counters: BTreeMap<&'static str, i64>,
    }
    impl Model {
        fn lookup(&self, path: &[&'static str]) -> Option<String> {
            // walk from the top layer down
            let mut gidx = self.globals.len();
            for l in self.layers.iter().rev() {
                match l {
                    Layer::Scope(m) => {
                        if let Some(v) = m.get(path[0]) {
                            return model_find(v, &path[1..]);
                        }
                    }
                    Layer::Sandbox(m) => {
                        return m.get(path[0]).and_then(|v| model_find(v, &path[1..]));
                    }
                    Layer::Global => {
                        gidx -= 1;
                        if let Some(v) = self.globals[gidx].get(path[0]) {
                            return model_find(v, &path[1..]);
                        }
                    }
                }
            }
            // builder: global layer 0, then base data, then counters
            if let Some(v) = self.globals[0].get(path[0]) {
                return model_find(v, &path[1..]);
            }
            if let Some(v) = self.base.get(path[0]) {
                return model_find(v, &path[1..]);
            }
            if let Some(c) = self.counters.get(path[0]) {
                return model_find(&V::S(*c), &path[1..]);
            }
            None
        }
        fn roots(&self) -> Vec<String> {
            let mut out: std::collections::BTreeSet<String> = Default::default();
            let mut gidx = self.globals.len();
            let mut sandboxed = false;
            for l in self.layers.iter().rev() {
                match l {
                    Layer::Scope(m) => out.extend(m.keys().map(|k| k.to_string())),
                    Layer::Sandbox(m) => {
                        out.extend(m.keys().map(|k| k.to_string()));
                        sandboxed = true;
                        break;
                    }
                    Layer::Global => {
                        gidx -= 1;
                        out.extend(self.globals[gidx].keys().map(|k| k.to_string()));
                    }
                }
            }
            if !sandboxed {
                out.extend(self.globals[0].keys().map(|k| k.to_string()));
                out.extend(self.base.keys().map(|k| k.to_string()));
                out.extend(self.counters.keys().map(|k| k.to_string()));
            }
            out.into_iter().collect()
        }
    }

    fn render_val(v: &dyn ValueView) -> String {
        if v.as_object().is_some() {
            "<obj>".to_string()
        } else {
            v.to_kstr().to_string()
        }
    }

    /// observe every path of length 1..2 (both lookup forms), the roots and the counters on the real runtime `rt`
    fn observe(rt: &dyn Runtime, model: &Model, trace: &str) -> Result<usize, String> {
        let mut n = 0;
        let keys = ["a", "b", "x"];
        let mut paths: Vec<Vec<&'static str>> = vec![];
        for k in keys {
            paths.push(vec![k]);
            for k2 in ["a", "b"] {
                paths.push(vec![k, k2]);
            }
        }
        for p in paths {
            let sp: Vec<liquid_core::model::ScalarCow<'_>> = p.iter().map(|s| Scalar::new(*s)).collect();
            let t = rt.try_get(&sp).map(|v| render_val(v.as_view()));
            let g = rt.get(&sp).ok().map(|v| render_val(v.as_view()));
            let m = model.lookup(&p);
            n += 1;
            if t != g {
                return Err(format!("after [{trace}]: try_get({p:?}) = {t:?} but get({p:?}) = {g:?}"));
            }
            if t != m {
                return Err(format!("after [{trace}]: lookup of {p:?} gives {t:?}, the stack-of-maps model gives {m:?}"));
            }
        }
        let mut roots: Vec<String> = rt.roots().into_iter().map(|k| k.to_string()).collect();
        roots.sort();
        let mroots = model.roots();
        // "the list of root names is exactly the set of top-level names that resolve"
        if roots != mroots {
            return Err(format!("after [{trace}]: roots() = {roots:?}, model = {mroots:?}"));
        }
        for c in NAMES {
            let real = rt.get_index(c).and_then(|v| v.as_scalar().and_then(|s| s.to_integer()));
            let m = model.counters.get(c).copied();
            n += 1;
            if real != m {
                return Err(format!("after [{trace}]: counter {c} = {real:?}, model = {m:?} (counters are shared by all layers)"));
            }
        }
        Ok(n)
    }
    #[derive(Clone, Debug)]
    pub enum Op {
        PushScope(usize),
        PushSandbox(usize),
        PushGlobal,
        Assign(&'static str, i64),
        Counter(&'static str, i64),
    }

    fn maps() -> Vec<M> {
        // all 9 maps over {a, b} with values in {absent, scalar, object}
        let vals: [Option<V>; 3] = [None, Some(V::S(7)), Some(V::O([("a", 8i64), ("b", 9i64)].into_iter().collect()))];
        let mut out = vec![];
        for va in &vals {
            for vb in &vals {
                let mut m = M::new();
                if let Some(v) = va {
                    m.insert("a", v.clone());
                }
                if let Some(v) = vb {
                    m.insert("b", v.clone());
                }
                out.push(m);
            }
        }
        out
    }

    /// recursive exploration: at each node observe, then try every op; layers are pushed by recursion (borrowing the parent)
    fn explore(rt: &dyn Runtime, model: &mut Model, depth: usize, trace: &mut Vec<String>, stats: &mut (usize, usize)) -> Result<(), String> {
        stats.0 += 1;
        stats.1 += observe(rt, model, &trace.join("; "))?;
        if depth == 0 {
            return Ok(());
        }
        let ms = maps();
        // a reduced but systematic op alphabet per level (full product of maps at depth 1, diagonal subsets deeper)
        let map_choices: Vec<usize> = if trace.is_empty() { (0..ms.len()).collect() } else { vec![1, 2, 5, 8] };
        for &mi in &map_choices {
            // push plain scope
            let o = to_object(&ms[mi]);
            {
                let frame = StackFrame::new(rt, &o);
                model.layers.push(Layer::Scope(ms[mi].clone()));
                trace.push(format!("push scope {:?}", ms[mi].keys().collect::<Vec<_>>()));
                let r = explore(&frame, model, depth - 1, trace, stats);
                trace.pop();
                model.layers.pop();
                r?;
            }
            // after the pop the runtime must answer as before (plus global assignments made meanwhile, tracked in model)
            stats.1 += observe(rt, model, &format!("{}; (popped scope)", trace.join("; ")))?;
            // push sandbox
            {
                let frame = SandboxedStackFrame::new(rt, &o);
                model.layers.push(Layer::Sandbox(ms[mi].clone()));
                trace.push(format!("push sandbox {:?}", ms[mi].keys().collect::<Vec<_>>()));
                let r = explore(&frame, model, depth - 1, trace, stats);
                trace.pop();
                model.layers.pop();
                r?;
            }
            stats.1 += observe(rt, model, &format!("{}; (popped sandbox)", trace.join("; ")))?;
        }
        // push a global layer
        {
            let frame = GlobalFrame::new(rt);
            model.layers.push(Layer::Global);
            model.globals.push(M::new());
            trace.push("push global".to_string());
            let r = explore(&frame, model, depth - 1, trace, stats);
            trace.pop();
            model.globals.pop();
            model.layers.pop();
            r?;
        }
        // (effects cannot be undone on the real runtime, so they come last, counters before assignments: a counter name
        //  must be observed while no layer defines it)
        for (k, v) in [("a", 5i64), ("b", 6i64)] {
            rt.set_index(k.into(), Value::scalar(v));
            model.counters.insert(k, v);
            trace.push(format!("counter {k}={v}"));
            let r = explore(rt, model, depth - 1, trace, stats);
            trace.pop();
            r?;
        }
        // assign-global k v : lands in the nearest enclosing global layer
        for k in ["a", "b"] {
            // a value never used before on this runtime: an assignment that is silently dropped (or lands elsewhere) shows
            // even when the name was already assigned earlier on the path
            let v = 1000 + stats.0 as i64;
            let gi = {
                // nearest enclosing global layer: the last Layer::Global on the stack, else the builder's
                let mut gi = 0;
                let mut cnt = 0;
                for l in &model.layers {
                    if let Layer::Global = l {
                        cnt += 1;
                        gi = cnt;
                    }
                }
                gi
            };
            let saved = model.globals[gi].clone();
            rt.set_global(k.into(), Value::scalar(v));
            model.globals[gi].insert(k, V::S(v));
            trace.push(format!("assign {k}={v}"));
            let r = explore(rt, model, depth - 1, trace, stats);
            trace.pop();
            // undo on the real runtime is impossible (no API to remove a global) -> restore by re-assigning the saved
            // value when there was one, else stop exploring siblings that depend on absence: we re-create state by
            // only assigning names in increasing order along a path; siblings after this see the assignment too.
            let _ = saved;
            r?;
        }
        Ok(())
    }

    pub fn run(depth: usize) -> Result<(usize, usize), String> {
        let mut stats = (0usize, 0usize);
        for base in maps() {
            let o = to_object(&base);
            let rt = RuntimeBuilder::new().set_globals(&o).build();
            let mut model = Model { base: base.clone(), layers: vec![], globals: vec![M::new()], counters: Default::default() };
            let mut trace = vec![];
            explore(&rt, &mut model, depth, &mut trace, &mut stats)?;
        }
        Ok(stats)
    }
}

// ---------------------------------------------------------------- C11: equality / ordering laws on a value pool
mod value_laws {
    use liquid_core::model::{Object, State, Value, ValueViewCmp};
    use std::cmp::Ordering;

    fn obj(pairs: &[(&str, Value)]) -> Value {
        let mut o = Object::new();
        for (k, v) in pairs {
            o.insert((*k).to_owned().into(), v.clone());
        }
        Value::Object(o)
    }
    /// the pool, built by `build` - called twice so that every value exists in two independently constructed copies
    pub fn build(rev: bool) -> Vec<(String, Value, bool)> {
        // (name, value, contains NaN)
        let mut v: Vec<(String, Value, bool)> = vec![];
        let mut add = |n: &str, x: Value, nan: bool| v.push((n.to_string(), x, nan));
        add("nil", Value::Nil, false);
        add("true", Value::scalar(true), false);
        add("false", Value::scalar(false), false);
        for i in [0i64, 1, -1, 2, 1 << 53, (1 << 53) + 1, i64::MAX, i64::MIN] {
            add(&format!("int {i}"), Value::scalar(i), false);
        }
        for f in [0.0f64, -0.0, 0.5, 1.0, 2.0, 9007199254740992.0, f64::INFINITY, f64::NEG_INFINITY] {
            add(&format!("float {f:?}"), Value::scalar(f), false);
        }
        add("float NaN", Value::scalar(f64::NAN), true);
        for s in ["", " ", "1", "true", "a", "A", "é", "ab"] {
            add(&format!("str {s:?}"), Value::scalar(s.to_owned()), false);
        }
        // dates and date-times (same day / different days / sub-millisecond fraction)
        {
            use liquid_core::model::{Date, DateTime};
            add("date 2020-01-02", Value::scalar(Date::from_ymd(2020, 1, 2)), false);
            add("date 2020-01-03", Value::scalar(Date::from_ymd(2020, 1, 3)), false);
            for t in ["2020-01-02 10:00:00 +0000", "2020-01-03 00:00:00 +0000", "2020-01-01 23:59:59 +0000", "2016-02-16 10:00:00.000456789 +0100", "2016-02-16 10:00:00.12 +0100"] {
                if let Some(dt) = DateTime::from_str(t) {
                    add(&format!("datetime {t}"), Value::scalar(dt), false);
                }
            }
        }
        add("empty", Value::State(State::Empty), false);
        add("blank", Value::State(State::Blank), false);
        add("[]", Value::Array(vec![]), false);
        add("[1]", Value::Array(vec![Value::scalar(1i64)]), false);
        add("[1,2]", Value::Array(vec![Value::scalar(1i64), Value::scalar(2i64)]), false);
        add("[1.0,2]", Value::Array(vec![Value::scalar(1.0f64), Value::scalar(2i64)]), false);
        add("[[1]]", Value::Array(vec![Value::Array(vec![Value::scalar(1i64)])]), false);
        add("[nil]", Value::Array(vec![Value::Nil]), false);
        add("{}", obj(&[]), false);
        add("{k:1}", obj(&[("k", Value::scalar(1i64))]), false);
        // same size, different key sets
        add("{j:1}", obj(&[("j", Value::scalar(1i64))]), false);
        add("{j:2}", obj(&[("j", Value::scalar(2i64))]), false);
        // multi-key objects: the two copies are built in opposite insertion orders
        let many: Vec<(String, Value)> = (0..12).map(|i| (format!("key{i}"), Value::scalar(i as i64))).collect();
        let mut keys: Vec<(&str, Value)> = many.iter().map(|(k, v)| (k.as_str(), v.clone())).collect();
        let mut ab = vec![("a", Value::scalar(1i64)), ("b", Value::scalar(2i64))];
        let mut ab3 = vec![("a", Value::scalar(1i64)), ("b", Value::scalar(3i64))];
        if rev {
            keys.reverse();
            ab.reverse();
            ab3.reverse();
        }
        let mut ac = vec![("a", Value::scalar(1i64)), ("c", Value::scalar(2i64))];
        if rev { ac.reverse(); }
        add("{a:1,c:2}", obj(&ac), false);
        add("{a:1,b:2}", obj(&ab), false);
        add("{a:1,b:3}", obj(&ab3), false);
        add("{key0..key11}", obj(&keys), false);
        add("[{a:1,b:2}]", Value::Array(vec![obj(&ab)]), false);
        v
    }

    pub fn run() -> Result<usize, String> {
        let p1 = build(false);
        let p2 = build(true);
        let mut n = 0;
        for (i, (na, a, nan_a)) in p1.iter().enumerate() {
            let a2 = &p2[i].1;
            for (j, (nb, b, nan_b)) in p1.iter().enumerate() {
                let b2 = &p2[j].1;
                let (ca, cb) = (ValueViewCmp::new(a), ValueViewCmp::new(b));
                let (ca2, cb2) = (ValueViewCmp::new(a2), ValueViewCmp::new(b2));
                n += 1;
                let eq = ca == cb;
                if eq != (cb == ca) {
                    return Err(format!("equality is not symmetric: ({na}) == ({nb}) is {eq}, the mirrored comparison is {}", cb == ca));
                }
                if (ca != cb) == eq {
                    return Err(format!("!= is not the negation of == for ({na}), ({nb})"));
                }
                let ab = ca.partial_cmp(&cb);
                let ba = cb.partial_cmp(&ca);
                if ab != ba.map(|o| o.reverse()) {
                    return Err(format!("< and > are not duals: cmp(({na}), ({nb})) = {ab:?}, cmp(({nb}), ({na})) = {ba:?}"));
                }
                if eq && matches!(ab, Some(Ordering::Less) | Some(Ordering::Greater)) {
                    return Err(format!("({na}) == ({nb}) but they are strictly ordered: {ab:?}"));
                }
                if ab.is_some() {
                    if (ca <= cb) != ((ca < cb) || eq) {
                        return Err(format!("({na}) <= ({nb}) is {} but (< or ==) is {}", ca <= cb, (ca < cb) || eq));
                    }
                    if (ca >= cb) != ((ca > cb) || eq) {
                        return Err(format!("({na}) >= ({nb}) is {} but (> or ==) is {}", ca >= cb, (ca > cb) || eq));
                    }
                }
                // construction independence: the independently built copies compare the same way
                if (ca2 == cb2) != eq || (ca == cb2) != eq || (ca2 == cb) != eq {
                    return Err(format!("({na}) == ({nb}) depends on how the values were built"));
                }
                if ca2.partial_cmp(&cb2) != ab || ca.partial_cmp(&cb2) != ab || ca2.partial_cmp(&cb) != ab {
                    return Err(format!("the ordering of ({na}) and ({nb}) depends on how the values were built: {ab:?} vs {:?} / {:?} / {:?}",
                                       ca2.partial_cmp(&cb2), ca.partial_cmp(&cb2), ca2.partial_cmp(&cb)));
                }
                if i == j && !nan_a && !nan_b {
                    if !(ca == ca2) {
                        return Err(format!("({na}) is not equal to an independently built copy of itself"));
                    }
                    if matches!(ca.partial_cmp(&ca2), Some(Ordering::Less) | Some(Ordering::Greater)) {
                        return Err(format!("({na}) is strictly ordered against an independently built copy of itself"));
                    }
                }
            }
        }
        // an integer and a float denoting the same number are equal (|x| <= 2^53)
        for x in [0i64, 1, -1, 2, 1 << 53, -(1 << 53), 123456789] {
            let (i, f) = (Value::scalar(x), Value::scalar(x as f64));
            if !(ValueViewCmp::new(&i) == ValueViewCmp::new(&f)) || !(ValueViewCmp::new(&f) == ValueViewCmp::new(&i)) {
                return Err(format!("integer {x} and float {x}.0 are not equal"));
            }
        }
        Ok(n)
    }
}

// ---------------------------------------------------------------- C12: views and conversions of a datum agree
mod conversions {
    use liquid_core::model::{to_value, Object, State, Value, ValueCow, ValueView, ValueViewCmp};

    fn check(name: &str, v: &Value) -> Result<(), String> {
        let owned = v.to_value();
        let cow_b: ValueCow<'_> = ValueCow::Borrowed(v);
        let cow_o: ValueCow<'_> = ValueCow::Owned(v.clone());
        let views: [(&str, &dyn ValueView); 4] = [("to_value", &owned), ("ValueCow::Borrowed", &cow_b), ("ValueCow::Owned", &cow_o), ("as_view", cow_o.as_view())];
        let nan = format!("{}", v.source()).contains("NaN");
        for (vn, w) in views {
            if w.type_name() != v.type_name() {
                return Err(format!("{name}: kind changes through {vn}: {} vs {}", w.type_name(), v.type_name()));
            }
            if w.to_kstr() != v.to_kstr() || format!("{}", w.render()) != format!("{}", v.render()) || format!("{}", w.source()) != format!("{}", v.source()) {
                return Err(format!("{name}: printed form changes through {vn}"));
            }
            for st in [State::Truthy, State::DefaultValue, State::Empty, State::Blank] {
                if w.query_state(st) != v.query_state(st) {
                    return Err(format!("{name}: {st:?} answer changes through {vn}"));
                }
            }
            if w.is_nil() != v.is_nil() || w.is_scalar() != v.is_scalar() || w.is_array() != v.is_array() || w.is_object() != v.is_object() || w.is_state() != v.is_state() {
                return Err(format!("{name}: kind predicates change through {vn}"));
            }
            if !nan && !(ValueViewCmp::new(w) == ValueViewCmp::new(v)) {
                return Err(format!("{name}: not equal to itself through {vn}"));
            }
        }
        // serde round trip Value -> JSON text -> Value (states and NaN/inf have no JSON form)
        if !nan && !v.is_state() && !format!("{}", v.source()).contains("inf") {
            if let Ok(js) = serde_json::to_string(v) {
                match serde_json::from_str::<Value>(&js) {
                    Ok(back) => {
                        if !(ValueViewCmp::new(&back) == ValueViewCmp::new(v)) || back.type_name() != v.type_name() {
                            return Err(format!("{name}: JSON round trip gives {} for {}", back.source(), v.source()));
                        }
                    }
                    Err(e) => return Err(format!("{name}: JSON {js} does not read back: {e}")),
                }
            }
        }
        Ok(())
    }

    pub fn run() -> Result<usize, String> {
        let pool = super::value_laws::build(false);
        let mut n = 0;
        for (name, v, _) in &pool {
            check(name, v)?;
            n += 1;
        }
        // integers across the u64 / i64 boundary: the same integer, a float, or an error - never a different integer
        for x in [0u64, 1, i64::MAX as u64 - 1, i64::MAX as u64, i64::MAX as u64 + 1, u64::MAX - 1, u64::MAX] {
            n += 1;
            match to_value(&x) {
                Ok(v) => match v.as_scalar().and_then(|s| s.to_integer()) {
                    Some(i) => {
                        if x > i64::MAX as u64 || i as u64 != x {
                            return Err(format!("to_value({x}u64) became the different integer {i}"));
                        }
                    }
                    None => {
                        if v.as_scalar().and_then(|s| s.to_float()).is_none() {
                            return Err(format!("to_value({x}u64) is neither an integer nor a float"));
                        }
                    }
                },
                Err(_) => {
                    if x <= i64::MAX as u64 {
                        return Err(format!("to_value({x}u64) was rejected although it fits"));
                    }
                }
            }
        }
        for x in [i64::MIN, -1, 0, i64::MAX] {
            n += 1;
            let v = to_value(&x).map_err(|e| format!("to_value({x}i64): {e}"))?;
            if v.as_scalar().and_then(|s| s.to_integer()) != Some(x) {
                return Err(format!("to_value({x}i64) is {}", v.source()));
            }
        }
        // JSON text -> Value: big integers
        for (js, exact) in [("9223372036854775807", Some(i64::MAX)), ("-9223372036854775808", Some(i64::MIN)), ("9223372036854775808", None), ("18446744073709551615", None)] {
            n += 1;
            match serde_json::from_str::<Value>(js) {
                Ok(v) => {
                    let i = v.as_scalar().and_then(|s| s.to_integer());
                    match (exact, i) {
                        (Some(e), Some(i)) if e == i => {}
                        (Some(e), other) => return Err(format!("JSON {js} read as {other:?}, expected {e}")),
                        (None, Some(i)) => return Err(format!("JSON {js} (outside i64) became the integer {i}")),
                        (None, None) => {}
                    }
                }
                Err(_) => {
                    if exact.is_some() {
                        return Err(format!("JSON {js} was rejected although it fits"));
                    }
                }
            }
        }
        // forwarding impls: Option<T> and &T views agree with the datum on every observation (None behaves like nil)
        for (name, v, nan) in &pool {
            let some = Some(v.clone());
            let r: &Value = v;
            let views: [(&str, &dyn ValueView); 2] = [("Some(v)", &some), ("&v", &r)];
            for (vn, w) in views {
                n += 1;
                if w.is_nil() != v.is_nil() || w.is_scalar() != v.is_scalar() || w.is_array() != v.is_array() || w.is_object() != v.is_object() || w.is_state() != v.is_state()
                    || w.type_name() != v.type_name() || w.to_kstr() != v.to_kstr() || format!("{}", w.source()) != format!("{}", v.source()) {
                    return Err(format!("{name}: the {vn} view disagrees with the value itself (kind / nil-ness / printed form)"));
                }
                for st in [State::Truthy, State::DefaultValue, State::Empty, State::Blank] {
                    if w.query_state(st) != v.query_state(st) {
                        return Err(format!("{name}: {st:?} answer changes through the {vn} view"));
                    }
                }
                if !*nan && !(ValueViewCmp::new(w) == ValueViewCmp::new(v)) {
                    return Err(format!("{name}: the {vn} view is not equal to the value"));
                }
                if !*nan && !(ValueViewCmp::new(&w.to_value()) == ValueViewCmp::new(v)) {
                    return Err(format!("{name}: to_value() of the {vn} view is not equal to the value"));
                }
            }
        }
        let none: Option<Value> = None;
        if !none.is_nil() || none.query_state(State::Truthy) || none.type_name() != Value::Nil.type_name() {
            return Err("None::<Value> does not behave like nil".to_string());
        }
        // from_value: reading a Liquid integer back into a Rust integer type gives the same number or an error
        use liquid_core::model::from_value;
        // from_value into Value / Object: every pool value comes back as an equal value of the same kind; objects keep
        // every key, nil members included, at any depth (round 10)
        {
            use liquid_core::model::ObjectView;
            let mut o1 = Object::new(); o1.insert("only".into(), Value::Nil);
            let mut o2 = Object::new(); o2.insert("a".into(), Value::Nil); o2.insert("b".into(), Value::scalar(1i64));
            o2.insert("c".into(), Value::Object(o1.clone())); o2.insert("d".into(), Value::Array(vec![Value::Object(o1.clone()), Value::Nil]));
            let extra = [("object {only: nil}".to_string(), Value::Object(o1), false), ("nested object with nil members".to_string(), Value::Object(o2), false)];
            for (name, v, nan) in pool.iter().map(|(a, b, c)| (a.to_string(), b.clone(), *c)).chain(extra.into_iter()) {
                if v.type_name().starts_with("date") || v.is_state() { continue; } // a date scalar comes back as the string that prints it, the empty/blank states as nil: not data, not decided here
                n += 1;
                let back: Value = match from_value(&v) { Ok(b) => b, Err(e) => return Err(format!("{name}: from_value::<Value> failed: {e}")) };
                if back.type_name() != v.type_name() || (v.is_scalar() && format!("{}", back.source()) != format!("{}", v.source())) {
                    return Err(format!("{name}: from_value::<Value> changed the datum: {} -> {}", v.source(), back.source()));
                }
                if !nan && !(ValueViewCmp::new(&back) == ValueViewCmp::new(&v)) {
                    return Err(format!("{name}: from_value::<Value> is not equal to the value"));
                }
                for st in [State::Truthy, State::DefaultValue, State::Empty, State::Blank] {
                    if back.query_state(st) != v.query_state(st) { return Err(format!("{name}: {st:?} answer changes through from_value::<Value>")); }
                }
                if let Some(o) = v.as_object() {
                    let bo: Object = match from_value(&v) { Ok(b) => b, Err(e) => return Err(format!("{name}: from_value::<Object> failed: {e}")) };
                    if bo.size() != o.size() || o.keys().any(|k| !bo.contains_key(k.as_str())) {
                        return Err(format!("{name}: from_value::<Object> lost or gained keys: {} -> {}", v.source(), Value::Object(bo).source()));
                    }
                }
            }
            let m: std::collections::BTreeMap<String, Option<i64>> = [("set".to_string(), Some(3)), ("unset".to_string(), None)].into_iter().collect();
            let mv = to_value(&m).map_err(|e| format!("to_value(map with None): {e}"))?;
            if from_value::<std::collections::BTreeMap<String, Option<i64>>>(&mv).ok() != Some(m) {
                return Err("a Rust map holding None does not survive to_value then from_value".to_string());
            }
        }
        for x in [i64::MIN, -1i64, 0, 1, 255, 256, 65535, 65536, u32::MAX as i64, u32::MAX as i64 + 1, i64::MAX] {
            let v = Value::scalar(x);
            n += 1;
            macro_rules! back { ($t:ty) => {
                match from_value::<$t>(&v) {
                    Ok(y) => { if (y as i128) != (x as i128) { return Err(format!("from_value::<{}>({x}) became the different integer {y}", stringify!($t))); } }
                    Err(_) => { if <$t>::try_from(x).is_ok() { return Err(format!("from_value::<{}>({x}) was rejected although it fits", stringify!($t))); } }
                } } }
            back!(u8); back!(u16); back!(u32); back!(u64); back!(usize); back!(i8); back!(i16); back!(i32); back!(i64); back!(isize);
        }
        // a float Value read into an integer type: an error, or exactly that number - never a saturated or truncated neighbour
        for x in [3.0f64, -3.0, 3.5, 9.223372036854775807e18, 1.8446744073709552e19, 1e19, -1e19, -9.223372036854775808e18, f64::INFINITY, f64::NAN] {
            let v = Value::scalar(x);
            n += 1;
            macro_rules! fback { ($t:ty) => {
                if let Ok(y) = from_value::<$t>(&v) {
                    if (y as f64) != x || (y as i128) as f64 != x {
                        return Err(format!("from_value::<{}>({x:?}) became the different number {y}", stringify!($t)));
                    }
                } } }
            fback!(u8); fback!(u32); fback!(u64); fback!(i8); fback!(i32); fback!(i64);
        }
        // characters go through serde and come back as themselves
        for c in ['a', ' ', 'é', 'Ω', '日', '😀'] {
            n += 1;
            let v = to_value(&c).map_err(|e| format!("to_value({c:?}): {e}"))?;
            match from_value::<char>(&v) {
                Ok(back) if back == c => {}
                Ok(back) => return Err(format!("char {c:?} came back as {back:?}")),
                Err(e) => return Err(format!("char {c:?} does not read back: {}", format!("{e}").lines().next().unwrap_or(""))),
            }
            let opt: Option<char> = Some(c);
            let v = to_value(&opt).map_err(|e| format!("to_value(Some({c:?})): {e}"))?;
            if from_value::<Option<char>>(&v).ok() != Some(opt) {
                return Err(format!("Option<char> Some({c:?}) does not round trip"));
            }
        }
        n += derived::run()?;
        let _ = Object::new();
        Ok(n)
    }

    /// "a user struct exposed through the derive macros behaves exactly like the same struct converted through serde"
    mod derived {
        use liquid::model::{to_value, State, Value, ValueCow, ValueView, ValueViewCmp};
        use liquid::{ObjectView, ValueView as DeriveValueView};

        #[derive(ObjectView, DeriveValueView, serde::Serialize, Debug, Clone)]
        struct Profile { nickname: String, tags: Vec<String>, verified: bool, referrer: Option<String> }
        #[derive(ObjectView, DeriveValueView, serde::Serialize, Debug, Clone)]
        struct Mixed { n: i64, name: String, ratio: f64 }
        #[derive(ObjectView, DeriveValueView, serde::Serialize, Debug, Clone)]
        struct Outer { p: Profile, m: Mixed }

        fn same(name: &str, d: &dyn ValueView, s: &Value, keys: &[&str]) -> Result<usize, String> {
            let mut n = 0;
            let owned = d.to_value();
            let cow = ValueCow::Borrowed(d);
            let views: [(&str, &dyn ValueView); 3] = [("derived view", d), ("its to_value()", &owned), ("ValueCow::Borrowed of it", &cow)];
            for (vn, w) in views {
                n += 1;
                for st in [State::Truthy, State::DefaultValue, State::Empty, State::Blank] {
                    if w.query_state(st) != s.query_state(st) {
                        return Err(format!("{name}: {st:?} of the {vn} is {} but the serde-converted value says {}", w.query_state(st), s.query_state(st)));
                    }
                }
                if w.is_nil() != s.is_nil() || w.is_scalar() != s.is_scalar() || w.is_array() != s.is_array() || w.is_object() != s.is_object() || w.type_name() != s.type_name() {
                    return Err(format!("{name}: the {vn} and the serde-converted value differ in kind"));
                }
                if !(ValueViewCmp::new(w) == ValueViewCmp::new(s)) || !(ValueViewCmp::new(s) == ValueViewCmp::new(w)) {
                    return Err(format!("{name}: the {vn} is not equal to the serde-converted value"));
                }
                match (w.as_object(), s.as_object()) {
                    (Some(a), Some(b)) => {
                        if a.size() != b.size() {
                            return Err(format!("{name}: sizes differ through the {vn}"));
                        }
                        for k in keys.iter().copied().chain(["missing"]) {
                            if a.contains_key(k) != b.contains_key(k) {
                                return Err(format!("{name}: contains_key({k}) differs through the {vn}"));
                            }
                            match (a.get(k), b.get(k)) {
                                (None, None) => {}
                                (Some(x), Some(y)) => {
                                    // (the printed form of an object depends on the key order of the map type: compared for scalars only)
                                    if !(ValueViewCmp::new(x) == ValueViewCmp::new(y)) || (x.is_scalar() && x.to_kstr() != y.to_kstr()) {
                                        return Err(format!("{name}: member {k} differs through the {vn}"));
                                    }
                                    for st in [State::Truthy, State::DefaultValue, State::Empty, State::Blank] {
                                        if x.query_state(st) != y.query_state(st) {
                                            return Err(format!("{name}: {st:?} of member {k} differs through the {vn}"));
                                        }
                                    }
                                }
                                _ => return Err(format!("{name}: get({k}) differs through the {vn}")),
                            }
                        }
                    }
                    (None, None) => {}
                    _ => return Err(format!("{name}: only one of the two is an object ({vn})")),
                }
            }
            Ok(n)
        }

        pub fn run() -> Result<usize, String> {
            let mut n = 0;
            let profiles = [
                Profile { nickname: String::new(), tags: vec![], verified: false, referrer: None },
                Profile { nickname: "ferris".into(), tags: vec!["crab".into()], verified: true, referrer: Some("x".into()) },
                Profile { nickname: " ".into(), tags: vec![String::new()], verified: false, referrer: Some(String::new()) },
            ];
            let mixed = [Mixed { n: 0, name: String::new(), ratio: 0.0 }, Mixed { n: i64::MIN, name: "é".into(), ratio: -0.5 }];
            for (i, p) in profiles.iter().enumerate() {
                let s = to_value(p).map_err(|e| format!("to_value(Profile): {e}"))?;
                n += same(&format!("Profile #{i}"), p, &s, &["nickname", "tags", "verified", "referrer"])?;
            }
            for (i, m) in mixed.iter().enumerate() {
                let s = to_value(m).map_err(|e| format!("to_value(Mixed): {e}"))?;
                n += same(&format!("Mixed #{i}"), m, &s, &["n", "name", "ratio"])?;
            }
            let o = Outer { p: profiles[0].clone(), m: mixed[0].clone() };
            let s = to_value(&o).map_err(|e| format!("to_value(Outer): {e}"))?;
            n += same("Outer", &o, &s, &["p", "m"])?;
            Ok(n)
        }
    }
}

// ---------------------------------------------------------------- C09: histories of renders sharing one parser
fn render_history(w: &serde_json::Value) -> (bool, String) {
    let w = w.clone();
    let r = panic::catch_unwind(move || -> Result<usize, String> {
        let templates: Vec<String> = w["templates"].as_array().map(|a| a.iter().filter_map(|x| x.as_str().map(|s| s.to_owned())).collect()).unwrap_or_default();
        let datas: Vec<serde_json::Value> = w["datas"].as_array().cloned().unwrap_or_default();
        let k = w.get("length").and_then(|x| x.as_u64()).unwrap_or(3) as usize;
        let partials = w.get("partials").cloned();
        let policy = w.get("policy").and_then(|x| x.as_str()).unwrap_or("eager").to_owned();
        let shared = build_parser_policy(partials.as_ref(), &policy)?;
        let compiled: Vec<Option<liquid::Template>> = templates.iter().map(|t| shared.parse(t).ok()).collect();
        let objs: Vec<liquid::Object> = datas.iter().map(|d| serde_json::from_value(d.clone()).unwrap_or_default()).collect();
        // reference: every (template, data) on a freshly built parser
        let mut reference: Vec<Vec<std::result::Result<String, String>>> = vec![];
        for t in &templates {
            let mut row = vec![];
            for d in &datas {
                // a freshly built parser ON A FRESH THREAD (thread-local state must not leak into the reference either)
                let (t2, d2, p2, pol2) = (t.clone(), d.clone(), partials.clone(), policy.clone());
                let r = std::thread::spawn(move || -> Result<std::result::Result<String, String>, String> {
                    let fresh = build_parser_policy(p2.as_ref(), &pol2)?;
                    let o: liquid::Object = serde_json::from_value(d2).unwrap_or_default();
                    Ok(match fresh.parse(&t2) { Ok(tp) => tp.render(&o).map_err(|e| format!("{e}").lines().next().unwrap_or("").to_owned()), Err(e) => Err(format!("parse {e}")) })
                }).join().map_err(|_| "PANIC in a reference render".to_owned())??;
                row.push(r);
            }
            reference.push(row);
        }
        // all histories of length k over (template, data) calls, each call compared with the reference
        let with_faults = w.get("sink_faults").and_then(|x| x.as_bool()).unwrap_or(false);
        let mut calls: Vec<(usize, usize)> = (0..templates.len()).flat_map(|a| (0..objs.len()).map(move |b| (a, b))).collect();
        // a call index >= nplain is "render_to into a sink that fails at its first write" of call (idx - nplain): its own result
        // is not compared, only what the NEXT calls of the history return
        let nplain = calls.len();
        if with_faults {
            let extra: Vec<(usize, usize)> = calls.clone();
            calls.extend(extra);
        }
        let mut n = 0;
        let mut idx = vec![0usize; k];
        loop {
            for (step, &ci) in idx.iter().enumerate() {
                let (ti, di) = calls[ci];
                if ci >= nplain {
                    if let Some(tp) = &compiled[ti] {
                        let mut sink = FailAt { k: 1, calls: 0, accepted: vec![], writes_after_failure: 0, failed: false };
                        let _ = tp.render_to(&mut sink, &objs[di]);
                    }
                    n += 1;
                    continue;
                }
                let got = match &compiled[ti] { Some(tp) => tp.render(&objs[di]).map_err(|e| format!("{e}").lines().next().unwrap_or("").to_owned()), None => Err("parse".to_owned()) };
                let want = &reference[ti][di];
                let same = match (&got, want) { (Ok(a), Ok(b)) => a == b, (Err(_), Err(_)) => true, _ => false };
                n += 1;
                if !same {
                    let hist: Vec<String> = idx[..=step].iter().map(|&c| format!("{}(template {}, data {})", if c >= nplain { "render_to-into-a-failing-sink" } else { "render" }, calls[c].0, calls[c].1)).collect();
                    return Err(format!("after the history [{}] the last call gives {:?}, a fresh parser gives {:?}", hist.join(", "), got, want));
                }
            }
            // next history
            let mut p = 0;
            loop {
                if p == k { return Ok(n); }
                idx[p] += 1;
                if idx[p] < calls.len() { break; }
                idx[p] = 0;
                p += 1;
            }
        }
    });
    match r {
        Ok(Ok(n)) => (true, format!("{n} render calls in histories agree with a fresh parser")),
        Ok(Err(e)) => (false, e),
        Err(p) => (false, format!("PANIC {:?}", panic_msg(p))),
    }
}

fn expect_holds(e: &serde_json::Value, res: &Res) -> bool {
    if let Some(s) = e.get("output").and_then(|s| s.as_str()) {
        matches!(res, Ok(Ok(o)) if o == s)
    } else if let Some(s) = e.get("output_or_error").and_then(|s| s.as_str()) {
        matches!(res, Ok(Ok(o)) if o == s) || matches!(res, Ok(Err(_)))
    } else if let Some(list) = e.get("one_of").and_then(|s| s.as_array()) {
        matches!(res, Ok(Ok(o)) if list.iter().any(|s| s.as_str() == Some(o.as_str())))
    } else if e.get("error").is_some() {
        matches!(res, Ok(Err(_)))
    } else if let Some(n) = e.get("number") {
        // C15: exact integer when it fits; otherwise an error or a float close to the exact value, never a wrapped integer
        let exact = n["exact"].as_str().unwrap_or("0");
        let fits = n["fits"].as_bool().unwrap_or(true);
        match res {
            Err(_) => false,
            Ok(Err(_)) => !fits,
            Ok(Ok(o)) => {
                if fits {
                    o == exact
                } else {
                    // must not look like an i64
                    if o.parse::<i64>().is_ok() {
                        return false;
                    }
                    match (o.parse::<f64>(), exact.parse::<f64>()) {
                        (Ok(a), Ok(b)) => (a - b).abs() <= b.abs() * 1e-9,
                        _ => false,
                    }
                }
            }
        }
    } else {
        matches!(res, Ok(_))
    }
}

fn run(w: &serde_json::Value) -> (bool, String) {
    let kind = w.get("kind").and_then(|k| k.as_str()).unwrap_or("render");
    let null = serde_json::json!({});
    match kind {
        "render" => {
            let t = w["template"].as_str().unwrap_or("");
            let data = w.get("data").unwrap_or(&null);
            let res = render(t, data, w.get("partials"));
            (expect_holds(&w["expect"], &res), show(&res))
        }
        "render_same" => {
            let data = w.get("data").unwrap_or(&null);
            let ts: Vec<&str> = w["templates"].as_array().map(|a| a.iter().filter_map(|x| x.as_str()).collect()).unwrap_or_default();
            let rs: Vec<Res> = ts.iter().map(|t| render(t, data, w.get("partials"))).collect();
            let norm = |r: &Res| match r {
                Ok(Ok(s)) => format!("o:{s}"),
                Ok(Err(_)) => "e".to_string(),
                Err(_) => "p".to_string(),
            };
            let holds = rs.iter().all(|r| r.is_ok()) && rs.windows(2).all(|p| norm(&p[0]) == norm(&p[1]));
            (holds, rs.iter().map(show).collect::<Vec<_>>().join(" vs "))
        }
        "sink_faults" => sink_faults(w),
        "render_history" => render_history(w),
        "value_laws" => match panic::catch_unwind(value_laws::run) {
            Ok(Ok(n)) => (true, format!("{n} ordered pairs satisfy the equality/ordering laws")),
            Ok(Err(e)) => (false, e),
            Err(p) => (false, format!("PANIC {:?}", panic_msg(p))),
        },
        "conversions" => match panic::catch_unwind(conversions::run) {
            Ok(Ok(n)) => (true, format!("{n} values agree across their views and conversions")),
            Ok(Err(e)) => (false, e),
            Err(p) => (false, format!("PANIC {:?}", panic_msg(p))),
        },
        "stack_model" => {
            let depth = w.get("depth").and_then(|d| d.as_u64()).unwrap_or(2) as usize;
            match panic::catch_unwind(move || stack_model::run(depth)) {
                Ok(Ok((states, obs))) => (true, format!("{states} states, {obs} observations agree with the model")),
                Ok(Err(e)) => (false, e),
                Err(p) => (false, format!("PANIC {:?}", panic_msg(p))),
            }
        }
        _ => (true, format!("unknown witness kind {kind}")),
    }
}

fn main() {
    panic::set_hook(Box::new(|_| {}));
    let arg = std::env::args().nth(1).unwrap_or_default();
    if arg == "--stdin" {
        let mut s = String::new();
        std::io::Read::read_to_string(&mut std::io::stdin(), &mut s).unwrap();
        let v: serde_json::Value = serde_json::from_str(&s).expect("json");
        let out = std::io::stdout();
        let mut out = out.lock();
        for w in v.as_array().expect("array") {
            let (holds, obs) = run(w);
            writeln!(out, "{}", serde_json::json!({"holds": holds, "observed": obs})).unwrap();
        }
        return;
    }
    let s = match std::fs::read_to_string(&arg) {
        Ok(s) => s,
        Err(e) => {
            eprintln!("cannot read {arg}: {e}");
            std::process::exit(3)
        }
    };
    let v: serde_json::Value = match serde_json::from_str(&s) {
        Ok(v) => v,
        Err(e) => {
            eprintln!("bad json: {e}");
            std::process::exit(3)
        }
    };
    let w = if v.get("witness").is_some() { v["witness"].clone() } else { v.clone() };
    if let Some(o) = v.get("obligation") {
        println!("obligation: {}", o);
    }
    if w.is_null() || w.get("kind").is_none() && w.get("template").is_none() {
        println!("no failing input recorded (the verifier gives no model); failed obligation and verifier output are in the file");
        if let Some(out) = v.get("verifier_output").and_then(|x| x.as_str()) {
            println!("{out}");
        }
        std::process::exit(1);
    }
    let (holds, obs) = run(&w);
    println!("witness: {}", w);
    println!("observed on real code: {obs}");
    if holds {
        println!("HOLDS");
        std::process::exit(0);
    } else {
        println!("VIOLATED");
        std::process::exit(1);
    }
}

//@ unit index
//@ serves C07 C02
// Kani twin of unit `index`: convert_index and the Vec<T> ArrayView methods, verbatim from /repo, against executable stand-ins.
#![allow(dead_code, unused_variables, unused_imports, clippy::all)]

pub trait ValueView { fn ident(&self) -> u64; }
#[derive(Clone, Copy)]
pub struct Elem(pub u64);
impl ValueView for Elem { fn ident(&self) -> u64 { self.0 } }
pub trait ArrayView {
    fn size(&self) -> i64;
    fn contains_key(&self, index: i64) -> bool;
    fn get(&self, index: i64) -> Option<&dyn ValueView>;
//@ item crates/core/src/model/array/mod.rs :: trait ArrayView::first
//@ end
//@ item crates/core/src/model/array/mod.rs :: trait ArrayView::last
//@ end
}
impl<T: ValueView> ArrayView for Vec<T> {
//@ item crates/core/src/model/array/mod.rs :: impl ArrayView for Vec<T>::size
//@ end
//@ item crates/core/src/model/array/mod.rs :: impl ArrayView for Vec<T>::contains_key
//@ end
//@ item crates/core/src/model/array/mod.rs :: impl ArrayView for Vec<T>::get
//@ end
}
//@ item crates/core/src/model/array/mod.rs :: fn convert_value
//@ end
//@ item crates/core/src/model/array/mod.rs :: fn convert_index
//@ end

#[cfg(kani)]
mod proofs {
    use super::*;
    /// "array elements by zero-based index with negative indices counting from the end"; a step that does not exist yields
    /// None (never a neighbouring element). Vec length BOUNDED to 0..=3 (the index is any i64).
    #[kani::proof]
    #[kani::unwind(5)]
    fn c07_get_bounded() {
        let n: usize = kani::any();
        kani::assume(n <= 3);
        let mut v: Vec<Elem> = Vec::new();
        let mut k = 0;
        while k < n { v.push(Elem(100 + k as u64)); k += 1; }
        let index: i64 = kani::any();
        let r = ArrayView::get(&v, index);
        let len = n as i64;
        if 0 <= index && index < len {
            assert!(matches!(r, Some(x) if x.ident() == 100 + index as u64));
        } else if -len <= index && index < 0 {
            assert!(matches!(r, Some(x) if x.ident() == 100 + (len + index) as u64));
        } else {
            assert!(r.is_none());
        }
        assert!(ArrayView::size(&v) == len);
        // first / last agree with indexing
        assert!(ArrayView::first(&v).map(|x| x.ident()) == if n > 0 { Some(100) } else { None });
        assert!(ArrayView::last(&v).map(|x| x.ident()) == if n > 0 { Some(100 + n as u64 - 1) } else { None });
        if -len <= index { assert!(ArrayView::contains_key(&v, index) == (index < len)); }
    }
}

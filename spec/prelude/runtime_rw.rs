// ---------------- assumed environment: the runtime as tags see it, including the writer methods (stand-in; trusted) ----------------
/// per-render registers (interior mutability in the real code: effects are NOT modelled, see DESIGN C18)
pub trait RegisterDefault: Sized { }
#[verifier::external_body]
pub struct Registers { _p: u8 }
impl Registers {
    #[verifier::external_body]
    pub fn get_mut<T: RegisterDefault>(&self) -> (r: T) { unimplemented!() }
}
impl Clone for KString {
    #[verifier::external_body]
    fn clone(&self) -> (r: KString) ensures r == *self { unimplemented!() }
}
/// Effects behind `&self` cannot be given a two-state contract (RefCell); what CAN be stated is which writes a caller
/// is entitled to make: `set_global` / `set_index` carry a precondition naming the permitted (name, value).
/// identity of a runtime (scope): which bindings a node is rendered under
#[verifier::external_body]
pub struct RtId { _p: u8 }
pub trait Runtime {
    spec fn ident(&self) -> RtId;
    /// the runtime has a layer that captures assignments and one that holds the counters below or at this scope, so that
    /// set_global / set_index never reach RuntimeCore's `unreachable!` (unit `stack`: proved unreachable exactly then;
    /// RuntimeBuilder::build establishes it, the four scope constructors preserve it)
    spec fn writable(&self) -> bool;
    /// current value of the counter `name` (0 if it was never set)
    spec fn counter_now(&self, name: KString) -> int;
    /// the global write the tag being rendered is entitled to
    spec fn may_set_global(&self, name: KString, val: VId) -> bool;
    fn registers(&self) -> &Registers;
    fn set_global(&self, name: KString, val: Value) -> (r: Option<Value>)
        requires self.may_set_global(name, val.vid()),                                           // [C04:only_the_named_variable_is_assigned]
                 self.writable();                                                                 // [C02:assignments_need_a_global_layer]
    /// counters move by one per tag execution; assumed to stay within +-2^62 (2^62 executions are out of reach)
    fn get_index(&self, name: &KString) -> (r: Option<ValueCow>)
        ensures
            -0x4000_0000_0000_0000 <= self.counter_now(*name) <= 0x4000_0000_0000_0000,
            r matches Some(v) ==> (v.scalar_of() matches Some(s) && s.int_view() == Some(self.counter_now(*name) as i64)),
            r is None ==> self.counter_now(*name) == 0;
    fn set_index(&self, name: KString, val: Value) -> (r: Option<Value>)
        requires val.num() matches Some(Num::Int(k)) && (k == self.counter_now(name) + 1 || k == self.counter_now(name) - 1),   // [C04:counter_moves_by_one]
                 self.writable();                                                                 // [C02:counters_need_a_counter_layer]
}

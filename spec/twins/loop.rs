//@ unit loop
//@ serves C05 C02
// Kani twin of unit `loop`: loop metadata constructors (all i, len, cols) verbatim from /repo.
#![allow(dead_code, unused_variables, unused_imports, clippy::all)]
pub trait ValueView {}
#[derive(Clone, Copy, PartialEq, Debug)]
pub struct ValueCow<'a>(pub u64, pub core::marker::PhantomData<&'a ()>);
pub enum Value { Nil }
impl<'a> From<Value> for ValueCow<'a> { fn from(_v: Value) -> Self { ValueCow(u64::MAX, core::marker::PhantomData) } }
//@ item crates/lib/src/stdlib/blocks/for_block.rs :: struct ForloopObject
//@ kind struct
//@ end
impl<'p> ForloopObject<'p> {
//@ item crates/lib/src/stdlib/blocks/for_block.rs :: impl ForloopObject<'p>::new
//@ end
}
//@ item crates/lib/src/stdlib/blocks/for_block.rs :: struct TableRowObject
//@ kind struct
//@ end
impl TableRowObject {
//@ item crates/lib/src/stdlib/blocks/for_block.rs :: impl TableRowObject::new
//@ end
}

#[cfg(kani)]
mod proofs {
    use super::*;
    #[kani::proof]
    fn c05_forloop_fields() {
        let i: usize = kani::any();
        let len: usize = kani::any();
        kani::assume(i < len && len <= isize::MAX as usize);
        let f = ForloopObject::new(i, len);
        let (i, n) = (i as i128, len as i128);
        assert!(f.length as i128 == n && f.index0 as i128 == i && f.index as i128 == i + 1);
        assert!(f.rindex0 as i128 == n - i - 1 && f.rindex as i128 == n - i);
        assert!(f.first == (i == 0) && f.last == (i == n - 1));
        assert!(f.parentloop.is_none());
    }
    /// BOUNDED in i, len, cols < 2^10 plus the wrapped-negative column counts (usize % usize division circuits)
    #[kani::proof]
    fn c05_tablerow_fields_bounded() {
        let i: usize = kani::any();
        let len: usize = kani::any();
        let small: u16 = kani::any();
        let cols: usize = if kani::any() { (small % 1024) as usize } else if kani::any() { usize::MAX } else { 1usize << 63 };
        kani::assume(i < len && len <= 1024 && cols >= 1);
        let t = TableRowObject::new(i, len, i % cols, cols);
        let (ii, n, c) = (i as i128, len as i128, cols as i128);
        assert!(t.length as i128 == n && t.index0 as i128 == ii && t.index as i128 == ii + 1);
        assert!(t.rindex0 as i128 == n - ii - 1 && t.rindex as i128 == n - ii);
        assert!(t.first == (ii == 0) && t.last == (ii == n - 1));
        assert!(t.col0 as i128 == ii % c && t.col as i128 == ii % c + 1);
        assert!(t.col_first == (ii % c == 0));
        assert!(t.col_last == ((ii % c == c - 1) || ii == n - 1));
    }
    // iter_array has no twin: Vec::drain/resize/reverse make even length <= 2 intractable for the SAT back end (tried: no verdict in
    // 400 s); its unbounded proof is the Verus unit `loop`, its bounded stand-in the C05 battery.
}

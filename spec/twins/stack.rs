//@ unit stack
//@ serves C18 C04 C02
// Kani twin of unit `stack`: try_get / get of the four frame types, verbatim from /repo, against executable stand-ins.
// BOUNDED: names from a 3-letter alphabet, paths of length 0..2, objects as lookup tables (every table content is symbolic).
#![allow(dead_code, unused_variables, unused_imports, clippy::all)]

pub mod error {
    #[derive(Debug)]
    pub struct Error;
    pub type Result<T> = core::result::Result<T, Error>;
    impl Error {
        pub fn with_msg(_m: &'static str) -> Error { Error }
        pub fn context<K, V>(self, _k: K, _v: V) -> Error { self }
    }
}
pub mod model {
    use super::error::{Error, Result};
    pub const NAMES: [&str; 3] = ["a", "b", "x"];
    pub fn idx(s: &str) -> usize { if s == "a" { 0 } else if s == "b" { 1 } else { 2 } }
    #[derive(Clone, Copy)]
    pub struct ScalarCow(pub u8);
    pub struct KStr(pub u8);
    impl ScalarCow { pub fn to_kstr(&self) -> KStr { KStr(self.0) } }
    impl KStr { pub fn as_str(&self) -> &'static str { NAMES[(self.0 % 3) as usize] } }
    #[derive(Clone, Copy, PartialEq, Debug)]
    pub struct Value(pub u64);
    #[derive(Clone, Copy, PartialEq, Debug)]
    pub struct ValueCow(pub u64);
    impl ValueCow { pub fn into_owned(self) -> Value { Value(self.0) } }
    impl From<Value> for ValueCow { fn from(v: Value) -> ValueCow { ValueCow(v.0) } }
    pub trait ValueView {}
    pub struct Dummy;
    impl ValueView for Dummy {}
    pub static DUMMY: Dummy = Dummy;
    pub struct KString;
    /// an object: which names it defines, and what a path below each name resolves to (column 3 = the bare name)
    #[derive(Clone, Copy)]
    pub struct Object { pub has: [bool; 3], pub found: [[Option<u64>; 4]; 3] }
    pub trait ObjectView {
        fn table(&self) -> &Object;
        fn contains_key(&self, index: &str) -> bool { self.table().has[idx(index)] }
        fn get(&self, index: &str) -> Option<&dyn ValueView> { if self.table().has[idx(index)] { Some(&DUMMY) } else { None } }
        fn as_value(&self) -> &Object { self.table() }
    }
    impl ObjectView for Object { fn table(&self) -> &Object { self } }
    pub fn lookup(o: &Object, path: &[ScalarCow]) -> Option<u64> {
        let k0 = (path[0].0 % 3) as usize;
        if !o.has[k0] { return None; }
        if path.len() == 1 { o.found[k0][3] } else { o.found[k0][(path[1].0 % 3) as usize] }
    }
    pub fn try_find(value: &Object, path: &[ScalarCow]) -> Option<ValueCow> { lookup(value, path).map(ValueCow) }
    pub fn find(value: &Object, path: &[ScalarCow]) -> Result<ValueCow> { lookup(value, path).map(ValueCow).ok_or(Error) }
}
pub mod runtime {
    use crate::error::Result;
    use crate::model::{ScalarCow, Value, ValueCow};
    pub struct Registers;
    pub trait Runtime {
        fn try_get(&self, path: &[ScalarCow]) -> Option<ValueCow>;
        fn get(&self, path: &[ScalarCow]) -> Result<ValueCow>;
    }
    impl<R: Runtime + ?Sized> Runtime for &R {
        fn try_get(&self, path: &[ScalarCow]) -> Option<ValueCow> { <R as Runtime>::try_get(self, path) }
        fn get(&self, path: &[ScalarCow]) -> Result<ValueCow> { <R as Runtime>::get(self, path) }
    }
    pub mod stack {
        use crate::error::Error;
        use crate::error::Result;
        use crate::model::{Object, ObjectView, ScalarCow, Value, ValueCow, ValueView};
        use super::Registers;
//@ item crates/core/src/runtime/stack.rs :: struct StackFrame
//@ kind struct
//@ end
//@ item crates/core/src/runtime/stack.rs :: struct SandboxedStackFrame
//@ kind struct
//@ end
//@ item crates/core/src/runtime/stack.rs :: struct GlobalFrame
//@ kind struct
//@ end
//@ item crates/core/src/runtime/stack.rs :: struct IndexFrame
//@ kind struct
//@ end
        impl<P: super::Runtime, O: ObjectView> super::Runtime for StackFrame<P, O> {
//@ item crates/core/src/runtime/stack.rs :: impl super::Runtime for StackFrame<P,O>::try_get
//@ sig fn try_get(&self, path: &[ScalarCow]) -> Option<ValueCow>
//@ end
//@ item crates/core/src/runtime/stack.rs :: impl super::Runtime for StackFrame<P,O>::get
//@ sig fn get(&self, path: &[ScalarCow]) -> Result<ValueCow>
//@ end
        }
        impl<P: super::Runtime, O: ObjectView> super::Runtime for SandboxedStackFrame<P, O> {
//@ item crates/core/src/runtime/stack.rs :: impl super::Runtime for SandboxedStackFrame<P,O>::try_get
//@ sig fn try_get(&self, path: &[ScalarCow]) -> Option<ValueCow>
//@ end
//@ item crates/core/src/runtime/stack.rs :: impl super::Runtime for SandboxedStackFrame<P,O>::get
//@ sig fn get(&self, path: &[ScalarCow]) -> Result<ValueCow>
//@ end
        }
        impl<P: super::Runtime> super::Runtime for GlobalFrame<P> {
//@ item crates/core/src/runtime/stack.rs :: impl super::Runtime for GlobalFrame<P>::try_get
//@ sig fn try_get(&self, path: &[ScalarCow]) -> Option<ValueCow>
//@ end
//@ item crates/core/src/runtime/stack.rs :: impl super::Runtime for GlobalFrame<P>::get
//@ sig fn get(&self, path: &[ScalarCow]) -> Result<ValueCow>
//@ end
        }
        impl<P: super::Runtime> super::Runtime for IndexFrame<P> {
//@ item crates/core/src/runtime/stack.rs :: impl super::Runtime for IndexFrame<P>::try_get
//@ sig fn try_get(&self, path: &[ScalarCow]) -> Option<ValueCow>
//@ end
//@ item crates/core/src/runtime/stack.rs :: impl super::Runtime for IndexFrame<P>::get
//@ sig fn get(&self, path: &[ScalarCow]) -> Result<ValueCow>
//@ end
        }
        pub fn mk_stack<P: super::Runtime, O: ObjectView>(parent: P, data: O) -> StackFrame<P, O> { StackFrame { parent, name: None, data } }
        pub fn mk_sandbox<P: super::Runtime, O: ObjectView>(parent: P, data: O) -> SandboxedStackFrame<P, O> { SandboxedStackFrame { parent, name: None, data, registers: Registers } }
        pub fn mk_global<P: super::Runtime>(parent: P, data: Object) -> GlobalFrame<P> { GlobalFrame { parent, data: std::cell::RefCell::new(data) } }
        pub fn mk_index<P: super::Runtime>(parent: P, data: Object) -> IndexFrame<P> { IndexFrame { parent, data: std::cell::RefCell::new(data) } }
    }
}

#[cfg(kani)]
mod proofs {
    use crate::error::Result;
    use crate::model::*;
    use crate::runtime::stack::*;
    use crate::runtime::Runtime;

    /// an arbitrary underlying runtime: any answer table, with get and try_get agreeing (the contract a layer may assume of its parent)
    struct Stub { tbl: Object }
    impl Runtime for Stub {
        fn try_get(&self, path: &[ScalarCow]) -> Option<ValueCow> { if path.is_empty() { None } else { lookup(&self.tbl, path).map(ValueCow) } }
        fn get(&self, path: &[ScalarCow]) -> Result<ValueCow> { self.try_get(path).ok_or(crate::error::Error) }
    }
    fn any_object() -> Object {
        let mut o = Object { has: [false; 3], found: [[None; 4]; 3] };
        let mut i = 0;
        while i < 3 {
            o.has[i] = kani::any();
            let mut j = 0;
            while j < 4 { o.found[i][j] = if kani::any() { Some(kani::any()) } else { None }; j += 1; }
            i += 1;
        }
        o
    }
    fn any_path() -> (usize, [ScalarCow; 2]) {
        let n: usize = kani::any();
        kani::assume(n <= 2);
        (n, [ScalarCow(kani::any::<u8>() % 3), ScalarCow(kani::any::<u8>() % 3)])
    }
    /// "answers for the names it defines and is transparent for every other name"; failing and optional lookup agree
    fn expected(data: &Object, parent: Option<u64>, path: &[ScalarCow]) -> Option<u64> {
        if path.is_empty() { None } else if data.has[(path[0].0 % 3) as usize] { lookup(data, path) } else { parent }
    }
    fn check<R: Runtime>(layer: &R, data: &Object, parent: &Stub, sandbox: bool, path: &[ScalarCow]) {
        let p = if sandbox { None } else { parent.try_get(path).map(|v| v.0) };
        let e = expected(data, p, path);
        let t = layer.try_get(path).map(|v| v.0);
        let g = layer.get(path).ok().map(|v| v.0);
        assert!(t == e);     // try_get is the layer lookup
        assert!(g == e);     // get agrees with try_get
    }
    #[kani::proof]
    #[kani::unwind(5)]
    fn c18_stackframe_bounded() {
        let data = any_object(); let parent = Stub { tbl: any_object() }; let (n, p) = any_path();
        let layer = mk_stack(&parent, data);
        check(&layer, &data, &parent, false, &p[..n]);
    }
    #[kani::proof]
    #[kani::unwind(5)]
    fn c18_sandbox_bounded() {
        let data = any_object(); let parent = Stub { tbl: any_object() }; let (n, p) = any_path();
        let layer = mk_sandbox(&parent, data);
        check(&layer, &data, &parent, true, &p[..n]);
    }
    #[kani::proof]
    #[kani::unwind(5)]
    fn c18_globalframe_bounded() {
        let data = any_object(); let parent = Stub { tbl: any_object() }; let (n, p) = any_path();
        let layer = mk_global(&parent, data);
        check(&layer, &data, &parent, false, &p[..n]);
    }
    #[kani::proof]
    #[kani::unwind(5)]
    fn c18_indexframe_bounded() {
        let data = any_object(); let parent = Stub { tbl: any_object() }; let (n, p) = any_path();
        let layer = mk_index(&parent, data);
        check(&layer, &data, &parent, false, &p[..n]);
    }
}

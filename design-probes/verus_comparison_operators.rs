use vstd::prelude::*;
use core::cmp::Ordering;
verus! {

pub struct V { pub id: int }
pub uninterp spec fn veq(a: int, b: int) -> bool;
pub uninterp spec fn vcmp(a: int, b: int) -> Option<Ordering>;

#[derive(Clone, Copy)]
pub struct ValueViewCmp { pub id: Ghost<int> }

impl PartialEq for ValueViewCmp {
    #[verifier::external_body]
    fn eq(&self, other: &Self) -> (r: bool) ensures r == veq(self.id@, other.id@) { unimplemented!() }
}
impl PartialOrd for ValueViewCmp {
    #[verifier::external_body]
    fn partial_cmp(&self, other: &Self) -> (r: Option<Ordering>) ensures r == vcmp(self.id@, other.id@) { unimplemented!() }
}

enum ComparisonOperator { Equals, NotEquals, LessThan, GreaterThan, LessThanEquals, GreaterThanEquals }

fn cmp_eval(op: ComparisonOperator, ca: ValueViewCmp, cb: ValueViewCmp) -> (result: bool)
    ensures
        op is Equals ==> result == veq(ca.id@, cb.id@),
        op is NotEquals ==> result == !veq(ca.id@, cb.id@),
        op is LessThan ==> result == (vcmp(ca.id@, cb.id@) == Some(Ordering::Less)),
        op is LessThanEquals ==> result == (vcmp(ca.id@, cb.id@) == Some(Ordering::Less) || vcmp(ca.id@, cb.id@) == Some(Ordering::Equal)),
{
        let result = match op {
            ComparisonOperator::Equals => ca == cb,
            ComparisonOperator::NotEquals => ca != cb,
            ComparisonOperator::LessThan => ca < cb,
            ComparisonOperator::GreaterThan => ca > cb,
            ComparisonOperator::LessThanEquals => ca <= cb,
            ComparisonOperator::GreaterThanEquals => ca >= cb,
        };
        result
}

} // verus!
fn main() {}

use vstd::prelude::*;
verus! {

// ================= prelude =================
#[verifier::external_body]
pub struct Error { _p: u8 }
pub type Result<T> = core::result::Result<T, Error>;

/// Abstract sink. `log` = ids of the chunks accepted so far, `failed` = a write has failed.
pub struct Sink { pub log: Ghost<Seq<int>>, pub failed: Ghost<bool> }

pub trait Runtime {
    /// interrupt register, as seen through `registers().get_mut::<InterruptRegister>()`
    fn interrupted(&self) -> bool;
}

pub trait Renderable {
    /// what a successful render of this node appends
    spec fn out(&self) -> Seq<int>;
    fn render_to(&self, writer: &mut Sink, runtime: &dyn Runtime) -> (r: Result<()>)
        requires !old(writer).failed@,
        ensures
            r.is_ok() ==> !final(writer).failed@,
            r.is_ok() ==> final(writer).log@ == old(writer).log@ + self.out(),
            old(writer).log@.is_prefix_of(final(writer).log@),
            final(writer).failed@ ==> r.is_err();
}

pub struct Template {
    pub elements: Vec<Box<dyn Renderable>>,
}

// ================= extracted (signature rewritten: &mut dyn Write -> &mut Sink) =================
impl Template {
    fn render_to(&self, writer: &mut Sink, runtime: &dyn Runtime) -> (r: Result<()>)
        requires !old(writer).failed@,
        ensures
            old(writer).log@.is_prefix_of(final(writer).log@),
            final(writer).failed@ ==> r.is_err(),
    {
        for el in it: &self.elements
            invariant
                !writer.failed@,
                old(writer).log@.is_prefix_of(writer.log@),
        {
            el.render_to(writer, runtime)?;

            if runtime.interrupted()
            {
                break;
            }
        }
        Ok(())
    }
}

} // verus!
fn main() {}

use syn::visit::Visit;
use syn::spanned::Spanned;
struct V { depth: usize }
impl<'ast> Visit<'ast> for V {
    fn visit_impl_item_fn(&mut self, f: &'ast syn::ImplItemFn) {
        let s = f.block.span();
        println!("fn {} body {}:{}..{}:{}", f.sig.ident, s.start().line, s.start().column, s.end().line, s.end().column);
        syn::visit::visit_impl_item_fn(self, f);
    }
    fn visit_expr_closure(&mut self, c: &'ast syn::ExprClosure) {
        let s = c.body.span();
        let h = c.or1_token.span();
        println!("  closure head at {}:{} body {}:{}..{}:{} byte {:?}", h.start().line, h.start().column, s.start().line, s.start().column, s.end().line, s.end().column, s.byte_range());
        syn::visit::visit_expr_closure(self, c);
    }
    fn visit_expr_for_loop(&mut self, l: &'ast syn::ExprForLoop) {
        let s = l.body.span();
        println!("  for-loop body at {}:{}", s.start().line, s.start().column);
        syn::visit::visit_expr_for_loop(self, l);
    }
}
fn main() {
    let p = std::env::args().nth(1).unwrap();
    let src = std::fs::read_to_string(&p).unwrap();
    let file = syn::parse_file(&src).unwrap();
    let mut v = V { depth: 0 };
    v.visit_file(&file);
    let _ = v.depth;
}

//! replay: run witnesses against the REAL liquid-rust code (path dependency on /repo).
//!
//!   replay <file.json>    file is a witness object, or a replay file with a "witness" key
//!   replay --stdin        read a JSON array of witnesses on stdin; print one JSON result per line
//!
//! witness kinds
//!   {"kind":"render","template":T,"data":{..},"partials":{name:src,..},"expect":E}
//!        E = {"output":S} | {"error":true} | {"no_panic":true} | {"output_or_error":S} | {"one_of":[S,..]} |
//!            {"number":{"exact":"<int>","fits":bool}}   (C15: integer result exact, or float/err when it does not fit)
//!   {"kind":"render_same","templates":[T1,T2],"data":{..}}     both render to the same result (law-style clauses)
//!   {"kind":"sink_faults","template":T,"data":{..},"partials":{..}}    C10: failing / short-writing sinks at every write
//!   {"kind":"stack_model","depth":N}     C18/C04: the runtime stack types against an abstract stack-of-maps model
//! exit 0: the real code behaves as the witness expects (property holds on this input)
//! exit 1: it does not (the witness is a failing input)      exit 3: bad replay file
use std::io::Write;
use std::panic;

type Res = Result<Result<String, String>, String>; // Err(panic) | Ok(Err(liquid error)) | Ok(Ok(output))

fn build_parser(partials: Option<&serde_json::Value>) -> Result<liquid::Parser, String> {
    let mut b = liquid::ParserBuilder::with_stdlib();
    if let Some(serde_json::Value::Object(m)) = partials {
        let mut src = liquid::partials::InMemorySource::new();
        for (k, v) in m {
            src.add(k.clone(), v.as_str().unwrap_or("").to_owned());
        }
        b = b.partials(liquid::partials::EagerCompiler::new(src));
    }
    b.build().map_err(|e| format!("parser: {e}"))
}

fn panic_msg(p: Box<dyn std::any::Any + Send>) -> String {
    if let Some(s) = p.downcast_ref::<&str>() {
        s.to_string()
    } else if let Some(s) = p.downcast_ref::<String>() {
        s.clone()
    } else {
        "panic".to_string()
    }
}

fn render(template: &str, data: &serde_json::Value, partials: Option<&serde_json::Value>) -> Res {
    let template = template.to_owned();
    let data = data.clone();
    let partials = partials.cloned();
    let r = panic::catch_unwind(move || {
        let parser = build_parser(partials.as_ref())?;
        let t = parser.parse(&template).map_err(|e| format!("parse: {e}"))?;
        let globals: liquid::Object = serde_json::from_value(data).map_err(|e| format!("data: {e}"))?;
        t.render(&globals).map_err(|e| format!("render: {e}"))
    });
    match r {
        Ok(x) => Ok(x),
        Err(p) => Err(panic_msg(p)),
    }
}

fn show(res: &Res) -> String {
    match res {
        Ok(Ok(s)) => format!("output {s:?}"),
        Ok(Err(e)) => format!("error {:?}", e.lines().next().unwrap_or("")),
        Err(p) => format!("PANIC {p:?}"),
    }
}

// ---------------------------------------------------------------- C10: sinks that fail / accept short counts

/// fails on the k-th call of `write` (1-based); before that accepts everything
struct FailAt {
    k: usize,
    calls: usize,
    accepted: Vec<u8>,
    writes_after_failure: usize,
    failed: bool,
}
impl Write for FailAt {
    fn write(&mut self, buf: &[u8]) -> std::io::Result<usize> {
        self.calls += 1;
        if self.failed {
            self.writes_after_failure += 1;
            return Err(std::io::Error::new(std::io::ErrorKind::Other, "sink already failed"));
        }
        if self.calls == self.k {
            self.failed = true;
            return Err(std::io::Error::new(std::io::ErrorKind::Other, "sink failed"));
        }
        self.accepted.extend_from_slice(buf);
        Ok(buf.len())
    }
    fn flush(&mut self) -> std::io::Result<()> {
        Ok(())
    }
}
/// accepts at most `max` bytes per call; optionally fails on the k-th call
struct Short {
    max: usize,
    fail_at: Option<usize>,
    calls: usize,
    accepted: Vec<u8>,
    failed: bool,
    writes_after_failure: usize,
}
impl Write for Short {
    fn write(&mut self, buf: &[u8]) -> std::io::Result<usize> {
        self.calls += 1;
        if self.failed {
            self.writes_after_failure += 1;
            return Err(std::io::Error::new(std::io::ErrorKind::Other, "sink already failed"));
        }
        if Some(self.calls) == self.fail_at {
            self.failed = true;
            return Err(std::io::Error::new(std::io::ErrorKind::Other, "sink failed"));
        }
        let n = buf.len().min(self.max);
        self.accepted.extend_from_slice(&buf[..n]);
        Ok(n)
    }
    fn flush(&mut self) -> std::io::Result<()> {
        Ok(())
    }
}
struct Count {
    calls: usize,
    data: Vec<u8>,
}
impl Write for Count {
    fn write(&mut self, buf: &[u8]) -> std::io::Result<usize> {
        self.calls += 1;
        self.data.extend_from_slice(buf);
        Ok(buf.len())
    }
    fn flush(&mut self) -> std::io::Result<()> {
        Ok(())
    }
}

fn sink_faults(w: &serde_json::Value) -> (bool, String) {
    let t = w["template"].as_str().unwrap_or("").to_owned();
    let null = serde_json::json!({});
    let data = w.get("data").unwrap_or(&null).clone();
    let partials = w.get("partials").cloned();
    let r = panic::catch_unwind(move || -> Result<(), String> {
        let parser = build_parser(partials.as_ref())?;
        let tpl = match parser.parse(&t) {
            Ok(t) => t,
            Err(_) => return Ok(()), // not a C10 matter
        };
        let globals: liquid::Object = serde_json::from_value(data).map_err(|e| format!("data: {e}"))?;
        let reference = match tpl.render(&globals) {
            Ok(s) => s,
            Err(_) => return Ok(()), // fault-free run fails: not a C10 matter
        };
        // streaming with a sink that never fails == buffering render
        let mut c = Count { calls: 0, data: vec![] };
        tpl.render_to(&mut c, &globals).map_err(|e| format!("render_to into a healthy sink failed: {e}"))?;
        if c.data != reference.as_bytes() {
            return Err(format!("streamed bytes {:?} differ from render() {:?}", String::from_utf8_lossy(&c.data), reference));
        }
        let writes = c.calls;
        for k in 1..=writes {
            let mut s = FailAt { k, calls: 0, accepted: vec![], writes_after_failure: 0, failed: false };
            let r = tpl.render_to(&mut s, &globals);
            if r.is_ok() {
                return Err(format!("sink failed on write {k} of {writes} but render_to returned Ok"));
            }
            if s.writes_after_failure > 0 {
                return Err(format!("sink failed on write {k} of {writes}; {} further write(s) were attempted", s.writes_after_failure));
            }
            if !reference.as_bytes().starts_with(&s.accepted) {
                return Err(format!("sink failed on write {k}: accepted bytes {:?} are not a prefix of {:?}", String::from_utf8_lossy(&s.accepted), reference));
            }
        }
        // short counts, never failing: all bytes must still arrive, in order
        for max in [1usize, 3] {
            let mut s = Short { max, fail_at: None, calls: 0, accepted: vec![], failed: false, writes_after_failure: 0 };
            tpl.render_to(&mut s, &globals).map_err(|e| format!("render_to into a short-writing sink failed: {e}"))?;
            if s.accepted != reference.as_bytes() {
                return Err(format!("sink accepting {max} byte(s) per call received {:?}, render() gives {:?}", String::from_utf8_lossy(&s.accepted), reference));
            }
        }
        // short count then failure
        let total_calls = {
            let mut s = Short { max: 1, fail_at: None, calls: 0, accepted: vec![], failed: false, writes_after_failure: 0 };
            let _ = tpl.render_to(&mut s, &globals);
            s.calls
        };
        for k in 1..=total_calls.min(40) {
            let mut s = Short { max: 1, fail_at: Some(k), calls: 0, accepted: vec![], failed: false, writes_after_failure: 0 };
            let r = tpl.render_to(&mut s, &globals);
            if r.is_ok() {
                return Err(format!("short-writing sink failed on call {k} but render_to returned Ok"));
            }
            if s.writes_after_failure > 0 {
                return Err(format!("short-writing sink failed on call {k}; further writes were attempted"));
            }
            if !reference.as_bytes().starts_with(&s.accepted) {
                return Err(format!("short-writing sink failed on call {k}: accepted bytes are not a prefix of the fault-free output"));
            }
        }
        Ok(())
    });
    match r {
        Ok(Ok(())) => (true, "all sink faults handled".to_string()),
        Ok(Err(e)) => (false, e),
        Err(p) => (false, format!("PANIC {:?}", panic_msg(p))),
    }
}

// ---------------------------------------------------------------- C18 / C04: runtime stack against a stack-of-maps model
mod stack_model {
    use liquid_core::model::{Object, Scalar, Value, ValueView};
    use liquid_core::runtime::{GlobalFrame, RuntimeBuilder, SandboxedStackFrame, StackFrame};
    use liquid_core::Runtime;
    use std::collections::BTreeMap;

    #[derive(Clone, Debug, PartialEq)]
    pub enum V {
        S(i64),
        O(BTreeMap<&'static str, i64>),
    }
    pub type M = BTreeMap<&'static str, V>;
    #[derive(Clone, Debug)]
    pub enum Layer {
        Scope(M),
        Sandbox(M),
        Global,
    }
    const NAMES: [&str; 2] = ["a", "b"];

    fn to_object(m: &M) -> Object {
        let mut o = Object::new();
        for (k, v) in m {
            let val = match v {
                V::S(i) => Value::scalar(*i),
                V::O(inner) => {
                    let mut io = Object::new();
                    for (ik, iv) in inner {
                        io.insert((*ik).into(), Value::scalar(*iv));
                    }
                    Value::Object(io)
                }
            };
            o.insert((*k).into(), val);
        }
        o
    }
    fn model_find(v: &V, rest: &[&'static str]) -> Option<String> {
        match (v, rest) {
            (V::S(i), []) => Some(format!("{i}")),
            (V::O(_), []) => Some("<obj>".to_string()),
            (V::O(m), [k]) => m.get(k).map(|i| format!("{i}")),
            _ => None,
        }
    }
    /// model state: base data, globals assigned per global layer (index 0 = the builder's), counters
    pub struct Model {
        pub base: M,
        pub layers: Vec<Layer>,
        pub globals: Vec<M>, // globals[0] builder's layer; one more per Layer::Global, in push order
        pub counters: BTreeMap<&'static str, i64>,
    }
    impl Model {
        fn lookup(&self, path: &[&'static str]) -> Option<String> {
            // walk from the top layer down
            let mut gidx = self.globals.len();
            for l in self.layers.iter().rev() {
                match l {
                    Layer::Scope(m) => {
                        if let Some(v) = m.get(path[0]) {
                            return model_find(v, &path[1..]);
                        }
                    }
                    Layer::Sandbox(m) => {
                        return m.get(path[0]).and_then(|v| model_find(v, &path[1..]));
                    }
                    Layer::Global => {
                        gidx -= 1;
                        if let Some(v) = self.globals[gidx].get(path[0]) {
                            return model_find(v, &path[1..]);
                        }
                    }
                }
            }
            // builder: global layer 0, then base data, then counters
            if let Some(v) = self.globals[0].get(path[0]) {
                return model_find(v, &path[1..]);
            }
            if let Some(v) = self.base.get(path[0]) {
                return model_find(v, &path[1..]);
            }
            if let Some(c) = self.counters.get(path[0]) {
                return model_find(&V::S(*c), &path[1..]);
            }
            None
        }
        fn roots(&self) -> Vec<String> {
            let mut out: std::collections::BTreeSet<String> = Default::default();
            let mut gidx = self.globals.len();
            let mut sandboxed = false;
            for l in self.layers.iter().rev() {
                match l {
                    Layer::Scope(m) => out.extend(m.keys().map(|k| k.to_string())),
                    Layer::Sandbox(m) => {
                        out.extend(m.keys().map(|k| k.to_string()));
                        sandboxed = true;
                        break;
                    }
                    Layer::Global => {
                        gidx -= 1;
                        out.extend(self.globals[gidx].keys().map(|k| k.to_string()));
                    }
                }
            }
            if !sandboxed {
                out.extend(self.globals[0].keys().map(|k| k.to_string()));
                out.extend(self.base.keys().map(|k| k.to_string()));
                out.extend(self.counters.keys().map(|k| k.to_string()));
            }
            out.into_iter().collect()
        }
    }

    fn render_val(v: &dyn ValueView) -> String {
        if v.as_object().is_some() {
            "<obj>".to_string()
        } else {
            v.to_kstr().to_string()
        }
    }

    /// observe every path of length 1..2 (both lookup forms), the roots and the counters on the real runtime `rt`
    fn observe(rt: &dyn Runtime, model: &Model, trace: &str) -> Result<usize, String> {
        let mut n = 0;
        let keys = ["a", "b", "x"];
        let mut paths: Vec<Vec<&'static str>> = vec![];
        for k in keys {
            paths.push(vec![k]);
            for k2 in ["a", "b"] {
                paths.push(vec![k, k2]);
            }
        }
        for p in paths {
            let sp: Vec<liquid_core::model::ScalarCow<'_>> = p.iter().map(|s| Scalar::new(*s)).collect();
            let t = rt.try_get(&sp).map(|v| render_val(v.as_view()));
            let g = rt.get(&sp).ok().map(|v| render_val(v.as_view()));
            let m = model.lookup(&p);
            n += 1;
            if t != g {
                return Err(format!("after [{trace}]: try_get({p:?}) = {t:?} but get({p:?}) = {g:?}"));
            }
            if t != m {
                return Err(format!("after [{trace}]: lookup of {p:?} gives {t:?}, the stack-of-maps model gives {m:?}"));
            }
        }
        let mut roots: Vec<String> = rt.roots().into_iter().map(|k| k.to_string()).collect();
        roots.sort();
        let mroots = model.roots();
        // "the list of root names is exactly the set of top-level names that resolve"
        if roots != mroots {
            return Err(format!("after [{trace}]: roots() = {roots:?}, model = {mroots:?}"));
        }
        for c in NAMES {
            let real = rt.get_index(c).and_then(|v| v.as_scalar().and_then(|s| s.to_integer()));
            let m = model.counters.get(c).copied();
            n += 1;
            if real != m {
                return Err(format!("after [{trace}]: counter {c} = {real:?}, model = {m:?} (counters are shared by all layers)"));
            }
        }
        Ok(n)
    }
    #[derive(Clone, Debug)]
    pub enum Op {
        PushScope(usize),
        PushSandbox(usize),
        PushGlobal,
        Assign(&'static str, i64),
        Counter(&'static str, i64),
    }

    fn maps() -> Vec<M> {
        // all 9 maps over {a, b} with values in {absent, scalar, object}
        let vals: [Option<V>; 3] = [None, Some(V::S(7)), Some(V::O([("a", 8i64), ("b", 9i64)].into_iter().collect()))];
        let mut out = vec![];
        for va in &vals {
            for vb in &vals {
                let mut m = M::new();
                if let Some(v) = va {
                    m.insert("a", v.clone());
                }
                if let Some(v) = vb {
                    m.insert("b", v.clone());
                }
                out.push(m);
            }
        }
        out
    }

    /// recursive exploration: at each node observe, then try every op; layers are pushed by recursion (borrowing the parent)
    fn explore(rt: &dyn Runtime, model: &mut Model, depth: usize, trace: &mut Vec<String>, stats: &mut (usize, usize)) -> Result<(), String> {
        stats.0 += 1;
        stats.1 += observe(rt, model, &trace.join("; "))?;
        if depth == 0 {
            return Ok(());
        }
        let ms = maps();
        // a reduced but systematic op alphabet per level (full product of maps at depth 1, diagonal subsets deeper)
        let map_choices: Vec<usize> = if trace.is_empty() { (0..ms.len()).collect() } else { vec![1, 2, 5, 8] };
        for &mi in &map_choices {
            // push plain scope
            let o = to_object(&ms[mi]);
            {
                let frame = StackFrame::new(rt, &o);
                model.layers.push(Layer::Scope(ms[mi].clone()));
                trace.push(format!("push scope {:?}", ms[mi].keys().collect::<Vec<_>>()));
                let r = explore(&frame, model, depth - 1, trace, stats);
                trace.pop();
                model.layers.pop();
                r?;
            }
            // after the pop the runtime must answer as before (plus global assignments made meanwhile, tracked in model)
            stats.1 += observe(rt, model, &format!("{}; (popped scope)", trace.join("; ")))?;
            // push sandbox
            {
                let frame = SandboxedStackFrame::new(rt, &o);
                model.layers.push(Layer::Sandbox(ms[mi].clone()));
                trace.push(format!("push sandbox {:?}", ms[mi].keys().collect::<Vec<_>>()));
                let r = explore(&frame, model, depth - 1, trace, stats);
                trace.pop();
                model.layers.pop();
                r?;
            }
            stats.1 += observe(rt, model, &format!("{}; (popped sandbox)", trace.join("; ")))?;
        }
        // push a global layer
        {
            let frame = GlobalFrame::new(rt);
            model.layers.push(Layer::Global);
            model.globals.push(M::new());
            trace.push("push global".to_string());
            let r = explore(&frame, model, depth - 1, trace, stats);
            trace.pop();
            model.globals.pop();
            model.layers.pop();
            r?;
        }
        // assign-global k v : lands in the nearest enclosing global layer
        for (k, v) in [("a", 1i64), ("b", 2i64)] {
            let gi = {
                // nearest enclosing global layer: the last Layer::Global on the stack, else the builder's
                let mut gi = 0;
                let mut cnt = 0;
                for l in &model.layers {
                    if let Layer::Global = l {
                        cnt += 1;
                        gi = cnt;
                    }
                }
                gi
            };
            let saved = model.globals[gi].clone();
            rt.set_global(k.into(), Value::scalar(v));
            model.globals[gi].insert(k, V::S(v));
            trace.push(format!("assign {k}={v}"));
            let r = explore(rt, model, depth - 1, trace, stats);
            trace.pop();
            // undo on the real runtime is impossible (no API to remove a global) -> restore by re-assigning the saved
            // value when there was one, else stop exploring siblings that depend on absence: we re-create state by
            // only assigning names in increasing order along a path; siblings after this see the assignment too.
            let _ = saved;
            r?;
        }
        for (k, v) in [("a", 5i64)] {
            rt.set_index(k.into(), Value::scalar(v));
            model.counters.insert(k, v);
            trace.push(format!("counter {k}={v}"));
            let r = explore(rt, model, depth - 1, trace, stats);
            trace.pop();
            r?;
        }
        Ok(())
    }

    pub fn run(depth: usize) -> Result<(usize, usize), String> {
        let mut stats = (0usize, 0usize);
        for base in maps() {
            let o = to_object(&base);
            let rt = RuntimeBuilder::new().set_globals(&o).build();
            let mut model = Model { base: base.clone(), layers: vec![], globals: vec![M::new()], counters: Default::default() };
            let mut trace = vec![];
            explore(&rt, &mut model, depth, &mut trace, &mut stats)?;
        }
        Ok(stats)
    }
}

fn expect_holds(e: &serde_json::Value, res: &Res) -> bool {
    if let Some(s) = e.get("output").and_then(|s| s.as_str()) {
        matches!(res, Ok(Ok(o)) if o == s)
    } else if let Some(s) = e.get("output_or_error").and_then(|s| s.as_str()) {
        matches!(res, Ok(Ok(o)) if o == s) || matches!(res, Ok(Err(_)))
    } else if let Some(list) = e.get("one_of").and_then(|s| s.as_array()) {
        matches!(res, Ok(Ok(o)) if list.iter().any(|s| s.as_str() == Some(o.as_str())))
    } else if e.get("error").is_some() {
        matches!(res, Ok(Err(_)))
    } else if let Some(n) = e.get("number") {
        // C15: exact integer when it fits; otherwise an error or a float close to the exact value, never a wrapped integer
        let exact = n["exact"].as_str().unwrap_or("0");
        let fits = n["fits"].as_bool().unwrap_or(true);
        match res {
            Err(_) => false,
            Ok(Err(_)) => !fits,
            Ok(Ok(o)) => {
                if fits {
                    o == exact
                } else {
                    // must not look like an i64
                    if o.parse::<i64>().is_ok() {
                        return false;
                    }
                    match (o.parse::<f64>(), exact.parse::<f64>()) {
                        (Ok(a), Ok(b)) => (a - b).abs() <= b.abs() * 1e-9,
                        _ => false,
                    }
                }
            }
        }
    } else {
        matches!(res, Ok(_))
    }
}

fn run(w: &serde_json::Value) -> (bool, String) {
    let kind = w.get("kind").and_then(|k| k.as_str()).unwrap_or("render");
    let null = serde_json::json!({});
    match kind {
        "render" => {
            let t = w["template"].as_str().unwrap_or("");
            let data = w.get("data").unwrap_or(&null);
            let res = render(t, data, w.get("partials"));
            (expect_holds(&w["expect"], &res), show(&res))
        }
        "render_same" => {
            let data = w.get("data").unwrap_or(&null);
            let ts: Vec<&str> = w["templates"].as_array().map(|a| a.iter().filter_map(|x| x.as_str()).collect()).unwrap_or_default();
            let rs: Vec<Res> = ts.iter().map(|t| render(t, data, w.get("partials"))).collect();
            let norm = |r: &Res| match r {
                Ok(Ok(s)) => format!("o:{s}"),
                Ok(Err(_)) => "e".to_string(),
                Err(_) => "p".to_string(),
            };
            let holds = rs.iter().all(|r| r.is_ok()) && rs.windows(2).all(|p| norm(&p[0]) == norm(&p[1]));
            (holds, rs.iter().map(show).collect::<Vec<_>>().join(" vs "))
        }
        "sink_faults" => sink_faults(w),
        "stack_model" => {
            let depth = w.get("depth").and_then(|d| d.as_u64()).unwrap_or(2) as usize;
            match panic::catch_unwind(move || stack_model::run(depth)) {
                Ok(Ok((states, obs))) => (true, format!("{states} states, {obs} observations agree with the model")),
                Ok(Err(e)) => (false, e),
                Err(p) => (false, format!("PANIC {:?}", panic_msg(p))),
            }
        }
        _ => (true, format!("unknown witness kind {kind}")),
    }
}

fn main() {
    panic::set_hook(Box::new(|_| {}));
    let arg = std::env::args().nth(1).unwrap_or_default();
    if arg == "--stdin" {
        let mut s = String::new();
        std::io::Read::read_to_string(&mut std::io::stdin(), &mut s).unwrap();
        let v: serde_json::Value = serde_json::from_str(&s).expect("json");
        let out = std::io::stdout();
        let mut out = out.lock();
        for w in v.as_array().expect("array") {
            let (holds, obs) = run(w);
            writeln!(out, "{}", serde_json::json!({"holds": holds, "observed": obs})).unwrap();
        }
        return;
    }
    let s = match std::fs::read_to_string(&arg) {
        Ok(s) => s,
        Err(e) => {
            eprintln!("cannot read {arg}: {e}");
            std::process::exit(3)
        }
    };
    let v: serde_json::Value = match serde_json::from_str(&s) {
        Ok(v) => v,
        Err(e) => {
            eprintln!("bad json: {e}");
            std::process::exit(3)
        }
    };
    let w = if v.get("witness").is_some() { v["witness"].clone() } else { v.clone() };
    if let Some(o) = v.get("obligation") {
        println!("obligation: {}", o);
    }
    if w.is_null() || w.get("kind").is_none() && w.get("template").is_none() {
        println!("no failing input recorded (the verifier gives no model); failed obligation and verifier output are in the file");
        if let Some(out) = v.get("verifier_output").and_then(|x| x.as_str()) {
            println!("{out}");
        }
        std::process::exit(1);
    }
    let (holds, obs) = run(&w);
    println!("witness: {}", w);
    println!("observed on real code: {obs}");
    if holds {
        println!("HOLDS");
        std::process::exit(0);
    } else {
        println!("VIOLATED");
        std::process::exit(1);
    }
}

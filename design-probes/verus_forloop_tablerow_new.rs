use vstd::prelude::*;
verus! {

#[verifier::external_body]
pub struct DynValueView;

struct ForloopObject<'p> {
    length: i64,
    parentloop: Option<&'p DynValueView>,
    index0: i64,
    index: i64,
    rindex0: i64,
    rindex: i64,
    first: bool,
    last: bool,
}

impl<'p> ForloopObject<'p> {
    fn new(i: usize, len: usize) -> (r: Self)
        requires i < len, len <= isize::MAX,
        ensures r.length == len, r.index0 == i, r.index == i + 1, r.rindex0 == len - i - 1, r.rindex == len - i,
                r.first == (i == 0), r.last == (i == len - 1), r.parentloop.is_none(),
    {
        let i = i as i64;
        let len = len as i64;
        let first = i == 0;
        let last = i == (len - 1);
        Self {
            length: len,
            parentloop: None,
            index0: i,
            index: i + 1,
            rindex0: len - i - 1,
            rindex: len - i,
            first,
            last,
        }
    }
}

struct TableRowObject {
    length: i64,
    index0: i64,
    index: i64,
    rindex0: i64,
    rindex: i64,
    first: bool,
    last: bool,
    col0: i64,
    col: i64,
    col_first: bool,
    col_last: bool,
}

impl TableRowObject {
    fn new(i: usize, len: usize, col: usize, cols: usize) -> (r: Self)
        requires i < len, len <= isize::MAX, cols >= 1, col == i % cols, cols <= isize::MAX,
        ensures r.col0 == i % cols, r.col == i % cols + 1, r.col_first == (i % cols == 0),
                r.col_last == ((i % cols == cols - 1) || i == len - 1),
    {
        let i = i as i64;
        let len = len as i64;
        let col = col as i64;
        let cols = cols as i64;
        let first = i == 0;
        let last = i == (len - 1);
        let col_first = col == 0;
        let col_last = col == (cols - 1) || last;
        Self {
            length: len,
            index0: i,
            index: i + 1,
            rindex0: len - i - 1,
            rindex: len - i,
            first,
            last,
            col0: col,
            col: (col + 1),
            col_first,
            col_last,
        }
    }
}

} // verus!
fn main() {}

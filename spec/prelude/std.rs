// ---- assumed specifications of std functions that vstd does not cover (each line is trusted) ----
pub assume_specification<T: Ord> [std::cmp::min] (a: T, b: T) -> (r: T)
    ensures
        T::obeys_cmp_spec() ==> r == (if a.cmp_spec(&b) == core::cmp::Ordering::Greater { b } else { a }),
;
pub assume_specification<T: Ord> [std::cmp::max] (a: T, b: T) -> (r: T)
    ensures
        T::obeys_cmp_spec() ==> r == (if a.cmp_spec(&b) == core::cmp::Ordering::Greater { a } else { b }),
;
pub assume_specification<T, F: FnOnce() -> Option<T>> [Option::<T>::or_else] (o: Option<T>, f: F) -> (r: Option<T>)
    requires o.is_none() ==> f.requires(()),
    ensures o.is_some() ==> r == o,
            o.is_none() ==> f.ensures((), r),
;
pub assume_specification<T> [Option::<T>::replace] (o: &mut Option<T>, v: T) -> (r: Option<T>)
    ensures r == *old(o), *final(o) == Some(v);
pub assume_specification<T, E, F, O: FnOnce(E) -> core::result::Result<T, F>> [core::result::Result::<T, E>::or_else] (r: core::result::Result<T, E>, op: O) -> (res: core::result::Result<T, F>)
    requires r matches Err(e) ==> op.requires((e,)),
    ensures r matches Ok(v) ==> res == core::result::Result::<T, F>::Ok(v),
            r matches Err(e) ==> op.ensures((e,), res);
pub assume_specification [i64::saturating_add] (a: i64, b: i64) -> (r: i64)
    ensures r == (if a + b > i64::MAX { i64::MAX as int } else if a + b < i64::MIN { i64::MIN as int } else { a + b });

// ---------------- assumed environment: liquid_core value model (stand-ins; every contract here is trusted) ----------------
/// a string value seen three ways: bytes (`str::len`), chars (`chars()`), grapheme clusters
#[verifier::external_body]
pub struct KStringCow { _p: u8 }
impl KStringCow {
    pub uninterp spec fn chars_view(&self) -> Seq<char>;
    pub uninterp spec fn byte_len(&self) -> nat;
    #[verifier::external_body]
    pub fn len(&self) -> (r: usize) ensures r == self.byte_len() { unimplemented!() }
    #[verifier::external_body]
    pub fn into_owned(self) -> (r: KString) ensures r.view() == self.chars_view() { unimplemented!() }
    #[verifier::external_body]
    pub fn chars(&self) -> (r: CharIter) ensures r.rest() == self.chars_view() { unimplemented!() }
}
/// a char occupies 1..4 bytes; a str is at most isize::MAX bytes
pub broadcast axiom fn axiom_char_len_le_byte_len(s: &KStringCow)
    ensures #[trigger] s.chars_view().len() <= s.byte_len();
pub broadcast axiom fn axiom_byte_len_isize(s: &KStringCow)
    ensures #[trigger] s.byte_len() <= isize::MAX;
pub broadcast group group_kstr { axiom_char_len_le_byte_len, axiom_byte_len_isize }

/// `str::chars()` and the three adapters the filters use
#[verifier::external_body]
pub struct CharIter { _p: u8 }
impl CharIter {
    pub uninterp spec fn rest(&self) -> Seq<char>;
    #[verifier::external_body]
    pub fn skip(self, n: usize) -> (r: CharIter)
        ensures r.rest() == (if n as int <= self.rest().len() { self.rest().subrange(n as int, self.rest().len() as int) } else { Seq::empty() })
    { unimplemented!() }
    #[verifier::external_body]
    pub fn take(self, n: usize) -> (r: CharIter)
        ensures r.rest() == (if n as int <= self.rest().len() { self.rest().subrange(0, n as int) } else { self.rest() })
    { unimplemented!() }
    #[verifier::external_body]
    pub fn count(self) -> (r: usize) ensures r == self.rest().len() { unimplemented!() }
    #[verifier::external_body]
    pub fn collect<B: FromChars>(self) -> (r: B) ensures r.chars_of() == self.rest() { unimplemented!() }
}
pub trait FromChars { spec fn chars_of(&self) -> Seq<char>; }
impl FromChars for String { open spec fn chars_of(&self) -> Seq<char> { self@ } }

/// abstract identity of a value (what `to_value()` / views preserve)
#[verifier::external_body]
pub struct VId { _p: u8 }

pub enum Num { Int(i64), Flt(f64) }

#[verifier::external_body]
pub struct ScalarCow { _p: u8 }
impl ScalarCow {
    pub uninterp spec fn int_view(&self) -> Option<i64>;
    pub uninterp spec fn flt_view(&self) -> Option<f64>;
    #[verifier::external_body]
    pub fn to_integer(&self) -> (r: Option<i64>) ensures r == self.int_view() { unimplemented!() }
    #[verifier::external_body]
    pub fn to_float(&self) -> (r: Option<f64>) ensures r == self.flt_view() { unimplemented!() }
    /// the text of the scalar
    pub uninterp spec fn text(&self) -> KStringCow;
    #[verifier::external_body]
    pub fn to_kstr(&self) -> (r: KStringCow) ensures r == self.text() { unimplemented!() }
}

#[verifier::external_body]
pub struct Value { _p: u8 }
impl Value {
    pub uninterp spec fn num(&self) -> Option<Num>;
    pub uninterp spec fn str_chars(&self) -> Option<Seq<char>>;
    pub uninterp spec fn arr(&self) -> Option<Seq<VId>>;
    pub uninterp spec fn vid(&self) -> VId;
}
/// the identity of nil
pub uninterp spec fn nil_vid() -> VId;
impl Value {
    /// the enum variant `Value::Nil` as an expression
    #[allow(non_upper_case_globals)]
    #[verifier::external_body]
    pub exec const Nil: Value ensures Self::Nil.vid() == nil_vid() { Value { _p: 0 } }
}
pub trait IntoScalar: Sized {
    spec fn as_num(self) -> Option<Num>;
    spec fn as_chars(self) -> Option<Seq<char>>;
}
impl IntoScalar for i64 { open spec fn as_num(self) -> Option<Num> { Some(Num::Int(self)) } open spec fn as_chars(self) -> Option<Seq<char>> { None } }
impl IntoScalar for f64 { open spec fn as_num(self) -> Option<Num> { Some(Num::Flt(self)) } open spec fn as_chars(self) -> Option<Seq<char>> { None } }
impl IntoScalar for String { open spec fn as_num(self) -> Option<Num> { None } open spec fn as_chars(self) -> Option<Seq<char>> { Some(self.chars_of()) } }
impl Value {
    #[verifier::external_body]
    pub fn scalar<T: IntoScalar>(v: T) -> (r: Value)
        ensures r.num() == v.as_num(), r.str_chars() == v.as_chars(), r.arr() is None
    { unimplemented!() }
    #[verifier::external_body]
    pub fn array(it: ValIter) -> (r: Value)
        ensures r.arr() == Some(it.rest()), r.num() is None, r.str_chars() is None
    { unimplemented!() }
}

/// `ArrayView::values()` and the adapters the filters use
#[verifier::external_body]
pub struct ValIter { _p: u8 }
impl ValIter {
    pub uninterp spec fn rest(&self) -> Seq<VId>;
    #[verifier::external_body]
    pub fn skip(self, n: usize) -> (r: ValIter)
        ensures r.rest() == (if n as int <= self.rest().len() { self.rest().subrange(n as int, self.rest().len() as int) } else { Seq::empty() })
    { unimplemented!() }
    #[verifier::external_body]
    pub fn take(self, n: usize) -> (r: ValIter)
        ensures r.rest() == (if n as int <= self.rest().len() { self.rest().subrange(0, n as int) } else { self.rest() })
    { unimplemented!() }
    /// `map` with a function that preserves value identity (such as `|s| s.to_value()`) keeps the sequence
    #[verifier::external_body]
    pub fn map<F: Fn(&dyn ValueView) -> Value>(self, f: F) -> (r: ValIter)
        requires forall|s: &dyn ValueView, v: Value| f.ensures((s,), v) ==> v.vid() == s.vid_of(),
                 forall|s: &dyn ValueView| f.requires((s,)),
        ensures r.rest() == self.rest()
    { unimplemented!() }
}

#[verifier::external_body]
pub struct DisplayCow { _p: u8 }
/// the object behind a value identity has the key
pub uninterp spec fn obj_has_key(o: VId, k: Seq<char>) -> bool;
/// the members of the object behind a value identity (None: not an object) / of an object view
pub uninterp spec fn vid_members(v: VId) -> Option<Map<Seq<char>, VId>>;
pub uninterp spec fn obj_members(o: &dyn ObjectView) -> Map<Seq<char>, VId>;
pub trait ValueView {
    spec fn vid_of(&self) -> VId;
    spec fn scalar_of(&self) -> Option<ScalarCow>;
    spec fn kstr_of(&self) -> KStringCow;
    spec fn array_of(&self) -> Option<Seq<VId>>;
    spec fn nil_of(&self) -> bool;
    fn is_nil(&self) -> (r: bool) ensures r == self.nil_of();
    fn as_scalar(&self) -> (r: Option<ScalarCow>) ensures r == self.scalar_of();
    fn to_kstr(&self) -> (r: KStringCow) ensures r == self.kstr_of();
    fn to_value(&self) -> (r: Value) ensures r.vid() == self.vid_of();
    fn as_array(&self) -> (r: Option<&dyn ArrayView>)
        ensures self.array_of() is Some <==> r is Some,
                r matches Some(a) ==> self.array_of() == Some(a.elems());
    /// display helpers (used in error messages only; no contract)
    #[verifier::external_body]
    fn render(&self) -> DisplayCow { unimplemented!() }
    #[verifier::external_body]
    fn source(&self) -> DisplayCow { unimplemented!() }
    #[verifier::external_body]
    fn type_name(&self) -> &'static str { unimplemented!() }
    spec fn object_size_of(&self) -> Option<int>;
    fn as_object(&self) -> (r: Option<&dyn ObjectView>)
        ensures self.object_size_of() is Some <==> r is Some,
                r matches Some(o) ==> self.object_size_of() == Some(o.entries()),
                r matches Some(o) ==> forall|k: Seq<char>| #[trigger] o.has_key(k) == obj_has_key(self.vid_of(), k),
                r matches Some(o) ==> vid_members(self.vid_of()) == Some(obj_members(o)),
                r is None ==> vid_members(self.vid_of()) is None;
}
pub trait ObjectView {
    spec fn entries(&self) -> int;
    fn size(&self) -> (r: i64) ensures r == self.entries();
    spec fn has_key(&self, k: Seq<char>) -> bool;
    fn contains_key(&self, index: &str) -> (r: bool) ensures r == self.has_key(index@);
}
pub trait ArrayView {
    spec fn elems(&self) -> Seq<VId>;
    fn size(&self) -> (r: i64) ensures r == self.elems().len();
    fn values(&self) -> (r: ValIter) ensures r.rest() == self.elems();
}
/// `ArrayView::{first, last, get}` (an extension trait here: Verus forbids the ValueView <-> ArrayView cycle in trait
/// contracts); these contracts are proved for the real `Vec<T>: ArrayView::get` and the trait's default bodies
/// (first = get(0), last = get(-1)) in unit `index`
pub open spec fn seq_idx(a: Seq<VId>, i: int) -> Option<VId> {
    if 0 <= i < a.len() { Some(a[i]) } else if -a.len() <= i < 0 { Some(a[a.len() + i]) } else { None }
}
pub trait ArrayEnds<'a> {
    spec fn elems_of(&self) -> Seq<VId>;
    fn first(&self) -> (r: Option<&'a dyn ValueView>)
        ensures self.elems_of().len() == 0 ==> r is None,
                self.elems_of().len() > 0 ==> (r matches Some(v) && v.vid_of() == self.elems_of()[0]);
    fn last(&self) -> (r: Option<&'a dyn ValueView>)
        ensures self.elems_of().len() == 0 ==> r is None,
                self.elems_of().len() > 0 ==> (r matches Some(v) && v.vid_of() == self.elems_of()[self.elems_of().len() - 1]);
    fn get(&self, index: i64) -> (r: Option<&'a dyn ValueView>)
        ensures seq_idx(self.elems_of(), index as int) is None ==> r is None,
                seq_idx(self.elems_of(), index as int) matches Some(e) ==> (r matches Some(v) && v.vid_of() == e);
}
impl<'a> ArrayEnds<'a> for &'a dyn ArrayView {
    open spec fn elems_of(&self) -> Seq<VId> { self.elems() }
    #[verifier::external_body]
    fn first(&self) -> (r: Option<&'a dyn ValueView>) { unimplemented!() }
    #[verifier::external_body]
    fn last(&self) -> (r: Option<&'a dyn ValueView>) { unimplemented!() }
    #[verifier::external_body]
    fn get(&self, index: i64) -> (r: Option<&'a dyn ValueView>) { unimplemented!() }
}
/// `Value` itself is a view (identity preserved)
impl ValueView for Value {
    open spec fn vid_of(&self) -> VId { self.vid() }
    uninterp spec fn scalar_of(&self) -> Option<ScalarCow>;
    uninterp spec fn kstr_of(&self) -> KStringCow;
    open spec fn array_of(&self) -> Option<Seq<VId>> { self.arr() }
    uninterp spec fn nil_of(&self) -> bool;
    uninterp spec fn object_size_of(&self) -> Option<int>;
    #[verifier::external_body]
    fn as_object(&self) -> (r: Option<&dyn ObjectView>) { unimplemented!() }
    #[verifier::external_body]
    fn is_nil(&self) -> (r: bool) { unimplemented!() }
    #[verifier::external_body]
    fn as_scalar(&self) -> (r: Option<ScalarCow>) { unimplemented!() }
    #[verifier::external_body]
    fn to_kstr(&self) -> (r: KStringCow) { unimplemented!() }
    #[verifier::external_body]
    fn to_value(&self) -> (r: Value) { unimplemented!() }
    #[verifier::external_body]
    fn as_array(&self) -> (r: Option<&dyn ArrayView>) { unimplemented!() }
}

use vstd::prelude::*;
verus! {

// ---------- prelude: assumed environment ----------
pub assume_specification<T, F: FnOnce() -> Option<T>> [Option::<T>::or_else] (o: Option<T>, f: F) -> (r: Option<T>)
    requires o.is_none() ==> f.requires(()),
    ensures o.is_some() ==> r == o,
            o.is_none() ==> f.ensures((), r),
;

#[verifier::external_body]
pub struct Error { _p: u8 }
pub type Result<T> = core::result::Result<T, Error>;

pub enum Num { Int(i64), Flt(f64) }

#[verifier::external_body]
pub struct ScalarCow { _p: u8 }
impl ScalarCow {
    pub uninterp spec fn int_view(&self) -> Option<i64>;
    pub uninterp spec fn flt_view(&self) -> Option<f64>;
    #[verifier::external_body]
    pub fn to_integer(&self) -> (r: Option<i64>) ensures r == self.int_view() { unimplemented!() }
    #[verifier::external_body]
    pub fn to_float(&self) -> (r: Option<f64>) ensures r == self.flt_view() { unimplemented!() }
}

#[verifier::external_body]
pub struct Value { _p: u8 }
impl Value {
    pub uninterp spec fn num(&self) -> Num;
}
pub trait IntoScalar: Sized { spec fn as_num(self) -> Num; }
impl IntoScalar for i64 { open spec fn as_num(self) -> Num { Num::Int(self) } }
impl IntoScalar for f64 { open spec fn as_num(self) -> Num { Num::Flt(self) } }
impl Value {
    #[verifier::external_body]
    pub fn scalar<T: IntoScalar>(v: T) -> (r: Value) ensures r.num() == v.as_num() { unimplemented!() }
}

#[verifier::external_body]
pub fn invalid_input(cause: &str) -> Error { unimplemented!() }
#[verifier::external_body]
pub fn invalid_argument(argument: &str, cause: &str) -> Error { unimplemented!() }

pub struct DynValueView { pub sc: Option<ScalarCow> }
impl DynValueView {
    pub fn as_scalar(&self) -> (r: Option<&ScalarCow>) ensures r.is_some() == self.sc.is_some(), r.is_some() ==> *r.unwrap() == self.sc.unwrap() { self.sc.as_ref() }
}
pub struct EvaluatedPlusArgs { pub operand: DynValueView }

// ---------- extracted body (PlusFilter::evaluate, after args.evaluate) ----------
fn plus_evaluate(input: &DynValueView, args: EvaluatedPlusArgs) -> (res: Result<Value>)
{
        let input = input
            .as_scalar()
            .ok_or_else(|| invalid_input("Number expected"))?;

        let operand = args
            .operand
            .as_scalar()
            .ok_or_else(|| invalid_argument("operand", "Number expected"))?;

        let result = input
            .to_integer()
            .and_then(|i| operand.to_integer().map(|o| Value::scalar(i + o)))
            .or_else(|| {
                input
                    .to_float()
                    .and_then(|i| operand.to_float().map(|o| Value::scalar(i + o)))
            })
            .ok_or_else(|| invalid_argument("operand", "Number expected"))?;

        Ok(result)
}

} // verus!
fn main() {}

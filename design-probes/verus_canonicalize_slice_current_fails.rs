use vstd::prelude::*;
use std::cmp;
use vstd::std_specs::cmp::OrdSpec;
verus! {

pub assume_specification<T: Ord> [std::cmp::min] (a: T, b: T) -> (r: T)
    ensures
        T::obeys_cmp_spec() ==> r == (if a.cmp_spec(&b) == core::cmp::Ordering::Greater { b } else { a }),
;

fn convert_index(index: i64, max_size: i64) -> (r: i64)
    requires 0 <= max_size,
    ensures index >= 0 ==> r == index,
            index < 0 ==> r == max_size + index,
{
    if 0 <= index {
        index
    } else {
        max_size + index
    }
}

fn canonicalize_slice(
    slice_offset: isize,
    slice_length: isize,
    vec_length: usize,
) -> (r: (usize, usize))
    requires vec_length <= isize::MAX, slice_length >= 1,
    ensures r.0 <= vec_length, r.0 + r.1 <= vec_length,
{
    let vec_length = vec_length as isize;

    // Cap slice_offset
    let slice_offset = cmp::min(slice_offset, vec_length);
    // Reverse indexing
    let slice_offset = if slice_offset < 0 {
        slice_offset + vec_length
    } else {
        slice_offset
    };

    // Cap slice_length
    let slice_length = if slice_offset + slice_length > vec_length {
        vec_length - slice_offset
    } else {
        slice_length
    };

    (slice_offset as usize, slice_length as usize)
}

} // verus!
fn main() {}

//! Kani harnesses on the REAL liquid-core crate (path dependency on /repo/crates/core), public API only.
//! C11: coherence of scalar equality / ordering over the full i64 / f64 / bool domain (loop-free => complete proofs;
//!      `unwind(2)` only bounds the unreachable Str arm's memcmp, unwinding assertions stay on).
//! C12: integer narrowing through serde: a u64 / i64 / smaller integer becomes the same integer or is rejected.
#![allow(unused)]

#[cfg(kani)]
mod proofs {
    use liquid_core::model::{to_scalar, to_value, Scalar, ScalarCow, Value, ValueView};
    use std::cmp::Ordering;

    fn any_scalar() -> Scalar {
        let k: u8 = kani::any();
        match k % 3 {
            0 => Scalar::new(kani::any::<i64>()),
            1 => Scalar::new(kani::any::<f64>()),
            _ => Scalar::new(kani::any::<bool>()),
        }
    }

    // ---------------------------------------------------------------- C11
    /// "Liquid equality is ... symmetric, != is its negation"
    #[kani::proof]
    #[kani::unwind(2)]
    fn c11_eq_symmetric_ne_negates() {
        let a = any_scalar();
        let b = any_scalar();
        assert!((a == b) == (b == a));
        assert!((a != b) == !(a == b));
    }

    fn of_kind(k: u8) -> Scalar {
        match k {
            0 => Scalar::new(kani::any::<i64>()),
            1 => Scalar::new(kani::any::<f64>()),
            _ => Scalar::new(kani::any::<bool>()),
        }
    }
    /// "< and > are duals"
    fn check_dual(a: Scalar, b: Scalar) {
        let ab = a.partial_cmp(&b);
        let ba = b.partial_cmp(&a);
        assert!(ab == ba.map(|o| o.reverse()));
        assert!((a < b) == (b > a));
        assert!((a <= b) == (b >= a));
    }
    /// "values that are equal are never strictly ordered"; "whenever two values are ordered, <= and >= hold exactly
    /// when < or > or equality does"
    fn check_le(a: Scalar, b: Scalar) {
        let ab = a.partial_cmp(&b);
        if a == b {
            assert!(!(a < b) && !(a > b));
        }
        if ab.is_some() {
            assert!((a <= b) == ((a < b) || (a == b)));
            assert!((a >= b) == ((a > b) || (a == b)));
            assert!((ab == Some(Ordering::Equal)) == (a == b));
        }
    }
    macro_rules! pair_harness {
        ($name_dual:ident, $name_le:ident, $ka:expr, $kb:expr) => {
            #[kani::proof]
            #[kani::unwind(2)]
            fn $name_dual() {
                check_dual(of_kind($ka), of_kind($kb));
            }
            #[kani::proof]
            #[kani::unwind(2)]
            fn $name_le() {
                check_le(of_kind($ka), of_kind($kb));
            }
        };
    }
    pair_harness!(c11_dual_int_int, c11_le_int_int, 0, 0);
    pair_harness!(c11_dual_int_float, c11_le_int_float, 0, 1);
    pair_harness!(c11_dual_float_int, c11_le_float_int, 1, 0);
    pair_harness!(c11_dual_float_float, c11_le_float_float, 1, 1);
    pair_harness!(c11_dual_int_bool, c11_le_int_bool, 0, 2);
    pair_harness!(c11_dual_bool_int, c11_le_bool_int, 2, 0);
    pair_harness!(c11_dual_float_bool, c11_le_float_bool, 1, 2);
    pair_harness!(c11_dual_bool_float, c11_le_bool_float, 2, 1);
    pair_harness!(c11_dual_bool_bool, c11_le_bool_bool, 2, 2);

    /// "equality is reflexive (NaN excepted)"
    #[kani::proof]
    #[kani::unwind(2)]
    fn c11_eq_reflexive_except_nan() {
        let k: u8 = kani::any();
        let a = match k % 3 {
            0 => Scalar::new(kani::any::<i64>()),
            1 => {
                let f: f64 = kani::any();
                kani::assume(!f.is_nan());
                Scalar::new(f)
            }
            _ => Scalar::new(kani::any::<bool>()),
        };
        let b = a.clone();
        assert!(a == b);
    }

    /// "an integer and a float denoting the same number are equal" (claimed for |x| <= 2^53)
    #[kani::proof]
    #[kani::unwind(2)]
    fn c11_int_float_same_number_equal() {
        let x: i64 = kani::any();
        kani::assume(-(1i64 << 53) <= x && x <= (1i64 << 53));
        let i = Scalar::new(x);
        let f = Scalar::new(x as f64);
        assert!(i == f && f == i);
        assert!(i.partial_cmp(&f) == Some(Ordering::Equal));
        // and a different integer in that range is not equal to it
        let y: i64 = kani::any();
        kani::assume(-(1i64 << 53) <= y && y <= (1i64 << 53) && y != x);
        assert!(Scalar::new(y) != f);
        assert!((Scalar::new(y) < f) == (y < x));
    }

    // ---------------------------------------------------------------- C06 (truthiness tables of the scalar kinds)
    /// "A bare value is true unless it is nil or false ... while 0 ... are true": every integer and every float is truthy,
    /// a boolean is its own truth value, nil is not truthy; numbers and booleans are never empty/blank/default
    #[kani::proof]
    #[kani::unwind(2)]
    fn c06_truthiness_of_scalars() {
        use liquid_core::model::State;
        let i = Scalar::new(kani::any::<i64>());
        let f = Scalar::new(kani::any::<f64>());
        let bv: bool = kani::any();
        let b = Scalar::new(bv);
        assert!(i.query_state(State::Truthy) && f.query_state(State::Truthy));
        assert!(b.query_state(State::Truthy) == bv);
        assert!(!i.query_state(State::Empty) && !i.query_state(State::Blank) && !i.query_state(State::DefaultValue));
        assert!(!f.query_state(State::Empty) && !f.query_state(State::Blank) && !f.query_state(State::DefaultValue));
        assert!(!b.query_state(State::Empty));
        assert!(b.query_state(State::DefaultValue) == !bv);
    }

    // ---------------------------------------------------------------- C12
    /// "an integer outside the signed 64-bit range is rejected or carried as a float, never turned into a different integer"
    #[kani::proof]
    #[kani::unwind(2)]
    fn c12_u64_narrowing() {
        let x: u64 = kani::any();
        match to_scalar(&x) {
            Ok(s) => {
                match s.to_integer() {
                    Some(i) => assert!(x <= i64::MAX as u64 && i == x as i64),
                    None => assert!(s.to_float().is_some()),
                }
            }
            Err(_) => assert!(x > i64::MAX as u64),
        }
    }

    #[kani::proof]
    #[kani::unwind(2)]
    fn c12_small_integers_exact() {
        let a: i8 = kani::any();
        let b: u16 = kani::any();
        let c: i32 = kani::any();
        let d: u32 = kani::any();
        let e: i64 = kani::any();
        assert!(to_scalar(&a).ok().and_then(|s| s.to_integer()) == Some(a as i64));
        assert!(to_scalar(&b).ok().and_then(|s| s.to_integer()) == Some(b as i64));
        assert!(to_scalar(&c).ok().and_then(|s| s.to_integer()) == Some(c as i64));
        assert!(to_scalar(&d).ok().and_then(|s| s.to_integer()) == Some(d as i64));
        assert!(to_scalar(&e).ok().and_then(|s| s.to_integer()) == Some(e));
    }

    /// owned scalar views agree with the datum: kind, truthiness, integer/float/bool views
    #[kani::proof]
    #[kani::unwind(2)]
    fn c12_scalar_views_agree() {
        let x: i64 = kani::any();
        let s = Scalar::new(x);
        assert!(s.to_integer() == Some(x));
        assert!(s.to_float() == Some(x as f64));
        assert!(s.to_bool().is_none());
        let b: bool = kani::any();
        let sb = Scalar::new(b);
        assert!(sb.to_bool() == Some(b));
        assert!(sb.to_integer().is_none());
        let f: f64 = kani::any();
        let sf = Scalar::new(f);
        assert!(sf.to_integer().is_none());
        if !f.is_nan() {
            assert!(sf.to_float() == Some(f));
        }
    }
}

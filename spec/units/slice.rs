//@ unit slice
//@ serves C13 C14 C02
//@ include prelude/header.rs
verus! {
//@ include prelude/std.rs
pub assume_specification [isize::saturating_add] (a: isize, b: isize) -> (r: isize)
    ensures r == (if a + b > isize::MAX { isize::MAX as int } else if a + b < isize::MIN { isize::MIN as int } else { a + b });
//@ include prelude/error.rs
//@ include prelude/runtime.rs
//@ include prelude/value.rs
//@ include prelude/expr.rs
use std::cmp;

/// derive(FilterParameters) output for SliceArgs (generated code, assumed)
pub struct SliceArgs { pub offset_e: u8 }
pub struct EvaluatedSliceArgs { pub offset: i64, pub length: Option<i64> }
impl SliceArgs {
    #[verifier::external_body]
    pub fn evaluate(&self, runtime: &dyn Runtime) -> (r: Result<EvaluatedSliceArgs>)
        ensures r matches Ok(e) ==> args_spec(self, runtime) == Some(e)
    { unimplemented!() }
}
/// the argument values the filter was called with (result of evaluating the argument expressions)
pub uninterp spec fn args_spec(a: &SliceArgs, rt: &dyn Runtime) -> Option<EvaluatedSliceArgs>;
pub open spec fn len_arg(a: EvaluatedSliceArgs) -> int { match a.length { Some(l) => l as int, None => 1 } }
pub struct SliceFilter { pub args: SliceArgs }

// ---------------- specification: what `slice` selects, in elements (chars of a string / items of an array) -------------
/// canonical start: offsets past the end clamp to the end, negative offsets count from the end
pub open spec fn canon_off(off: int, n: int) -> int { let o = if off < n { off } else { n }; if o < 0 { o + n } else { o } }
/// "slice returns a contiguous piece of at most the requested length"; an offset before the start selects nothing
pub open spec fn slice_spec<T>(s: Seq<T>, off: int, len: int) -> Seq<T> {
    let n = s.len() as int;
    let o = canon_off(off, n);
    if o < 0 { Seq::empty() } else { s.subrange(o, if o + len <= n { o + len } else { n }) }
}
proof fn lemma_slice_spec<T>(s: Seq<T>, off: int, len: int)
    requires len >= 1,
    ensures
        slice_spec(s, off, len).len() <= len,                                              // at most the requested length
        slice_spec(s, off, len).len() <= s.len(),
        0 <= off < s.len() ==> slice_spec(s, off, len)[0] == s[off],                       // starts at offset
        -(s.len() as int) <= off < 0 ==> slice_spec(s, off, len)[0] == s[s.len() + off],   // negative counts from the end
        off >= s.len() || off < -(s.len() as int) ==> slice_spec(s, off, len).len() == 0,
{
}

//@ item crates/lib/src/stdlib/filters/slice.rs :: fn canonicalize_slice
//@ props C13 C02
//@ safety C02 C13
//@ sig fn canonicalize_slice(slice_offset: isize, slice_length: isize, vec_length: usize) -> (r: (usize, usize))
//@ spec
    requires
        vec_length <= isize::MAX as usize, slice_length >= 1,      // guard `length < 1` in SliceFilter::evaluate; lengths of str / Vec
    ensures
        canon_off(slice_offset as int, vec_length as int) >= 0 ==> r.0 == canon_off(slice_offset as int, vec_length as int),   // [C13:slice_start]
        canon_off(slice_offset as int, vec_length as int) >= 0 ==>
            r.1 == (if slice_length as int <= vec_length - r.0 { slice_length as int } else { vec_length - r.0 }),              // [C13:slice_length_capped]
        canon_off(slice_offset as int, vec_length as int) < 0 ==> r.0 > vec_length,                                            // [C13:slice_before_start_selects_nothing]
        r.1 <= slice_length,                                                                                                   // [C13:slice_at_most_requested]
//@ edit <<(slice_offset as usize,>> => <<(#[verifier::truncate] (slice_offset as usize),>> why: Rust's `as` wraps; Verus otherwise leaves an out-of-range cast unspecified
//@ ghost before <<(slice_offset as usize,>>
proof { assert(slice_offset < 0 ==> (#[verifier::truncate] (slice_offset as usize)) >= 0x8000_0000_0000_0000usize) by (bit_vector); }
//@ end

impl SliceFilter {
//@ item crates/lib/src/stdlib/filters/slice.rs :: impl Filter for SliceFilter::evaluate
//@ props C13 C02 C14
//@ safety C02 C13
//@ sig fn evaluate(&self, input: &dyn ValueView, runtime: &dyn Runtime) -> (res: Result<Value>)
//@ spec
    ensures
        res matches Ok(v) ==> (args_spec(&self.args, runtime) matches Some(a) && len_arg(a) >= 1),
        // strings: counted and cut in characters
        res matches Ok(v) ==> (args_spec(&self.args, runtime) matches Some(a) && (input.array_of() is None ==>
                v.str_chars() == Some(slice_spec(input.kstr_of().chars_view(), a.offset as int, len_arg(a))))),          // [C13:slice_string_in_chars]
        // arrays: the same selection over the elements
        res matches Ok(v) ==> (args_spec(&self.args, runtime) matches Some(a) && (input.array_of() is Some ==>
                v.arr() == Some(slice_spec(input.array_of().unwrap(), a.offset as int, len_arg(a))))),                   // [C14:slice_agrees_with_indexing] [C13:slice_array]
        // a length below 1 is rejected
        args_spec(&self.args, runtime) matches Some(a) ==> (len_arg(a) < 1 ==> res is Err),                              // [C13:slice_rejects_nonpositive_length]
//@ prologue
    broadcast use group_kstr;
//@ closure 0 arg_of=map params=s
|s: &dyn ValueView| -> (v: Value) ensures v.vid() == s.vid_of()
//@ end
}

// ---------------- size ----------------
// ---------------- append / prepend ----------------
impl KStringCow {
    #[verifier::external_body]
    pub fn into_string(self) -> (r: String) ensures r@ == self.chars_view() { unimplemented!() }
    #[verifier::external_body]
    pub fn as_str(&self) -> (r: &str) ensures r@ == self.chars_view() { unimplemented!() }
}
/// derive(FilterParameters) output for AppendArgs / PrependArgs (generated code, assumed): the argument as text
pub struct AppendArgs { pub string_e: u8 }
pub struct PrependArgs { pub string_e: u8 }
pub struct EvaluatedStringArgs { pub string: KStringCow }
pub uninterp spec fn append_arg(a: &AppendArgs, rt: &dyn Runtime) -> Option<Seq<char>>;
pub uninterp spec fn prepend_arg(a: &PrependArgs, rt: &dyn Runtime) -> Option<Seq<char>>;
impl AppendArgs {
    #[verifier::external_body]
    pub fn evaluate(&self, runtime: &dyn Runtime) -> (r: Result<EvaluatedStringArgs>)
        ensures r matches Ok(e) ==> append_arg(self, runtime) == Some(e.string.chars_view()), r is Err ==> append_arg(self, runtime) is None
    { unimplemented!() }
}
impl PrependArgs {
    #[verifier::external_body]
    pub fn evaluate(&self, runtime: &dyn Runtime) -> (r: Result<EvaluatedStringArgs>)
        ensures r matches Ok(e) ==> prepend_arg(self, runtime) == Some(e.string.chars_view()), r is Err ==> prepend_arg(self, runtime) is None
    { unimplemented!() }
}
pub struct AppendFilter { pub args: AppendArgs }
pub struct PrependFilter { pub args: PrependArgs }
impl AppendFilter {
//@ item crates/lib/src/stdlib/filters/string/operate.rs :: impl Filter for AppendFilter::evaluate
//@ props C13 C02
//@ sig fn evaluate(&self, input: &dyn ValueView, runtime: &dyn Runtime) -> (res: Result<Value>)
//@ spec
    ensures
        res matches Ok(v) ==> (append_arg(&self.args, runtime) matches Some(a) && v.str_chars() == Some(input.kstr_of().chars_view() + a)),   // [C13:append_is_input_then_argument]
        res is Err ==> append_arg(&self.args, runtime) is None,
//@ end
}
impl PrependFilter {
//@ item crates/lib/src/stdlib/filters/string/operate.rs :: impl Filter for PrependFilter::evaluate
//@ props C13 C02
//@ sig fn evaluate(&self, input: &dyn ValueView, runtime: &dyn Runtime) -> (res: Result<Value>)
//@ spec
    ensures
        res matches Ok(v) ==> (prepend_arg(&self.args, runtime) matches Some(a) && v.str_chars() == Some(a + input.kstr_of().chars_view())),  // [C13:prepend_is_argument_then_input]
        res is Err ==> prepend_arg(&self.args, runtime) is None,
//@ end
}

// ---------------- default ----------------
/// `query_state` on a view (extension trait: the prelude trait has no state query)
pub trait QueryState { spec fn state_of(&self, s: State) -> bool; fn query_state(&self, state: State) -> (r: bool) ensures r == self.state_of(state); }
pub uninterp spec fn vid_state(v: VId, s: State) -> bool;
impl QueryState for &dyn ValueView {
    open spec fn state_of(&self, s: State) -> bool { vid_state(self.vid_of(), s) }
    #[verifier::external_body]
    fn query_state(&self, state: State) -> (r: bool) { unimplemented!() }
}
/// derive(FilterParameters) output for DefaultArgs (generated code, assumed)
pub struct DefaultArgs { pub default_e: u8 }
pub struct EvaluatedDefaultArgs { pub default: ValueCow }
pub uninterp spec fn default_arg(a: &DefaultArgs, rt: &dyn Runtime) -> Option<VId>;
impl DefaultArgs {
    #[verifier::external_body]
    pub fn evaluate(&self, runtime: &dyn Runtime) -> (r: Result<EvaluatedDefaultArgs>)
        ensures r matches Ok(e) ==> default_arg(self, runtime) == Some(e.default.vid()),
                r is Err ==> default_arg(self, runtime) is None
    { unimplemented!() }
}
pub struct DefaultFilter { pub args: DefaultArgs }
impl DefaultFilter {
//@ item crates/lib/src/stdlib/filters/mod.rs :: impl Filter for DefaultFilter::evaluate
//@ props C13 C02
//@ sig fn evaluate(&self, input: &dyn ValueView, runtime: &dyn Runtime) -> (res: Result<Value>)
//@ spec
    ensures
        // the input itself unless it is nil / false / empty (its DefaultValue state), then the argument
        res matches Ok(v) ==> (default_arg(&self.args, runtime) matches Some(d) &&
            v.vid() == (if vid_state(input.vid_of(), State::DefaultValue) { d } else { input.vid_of() })),          // [C13:default_replaces_exactly_the_default_state_inputs]
        res is Err ==> default_arg(&self.args, runtime) is None,                                                    // [C13:default_fails_only_if_its_argument_fails]
//@ end
}

pub struct SizeFilter;
impl SizeFilter {
//@ item crates/lib/src/stdlib/filters/mod.rs :: impl Filter for SizeFilter::evaluate
//@ props C13 C14 C02
//@ safety C02 C13
//@ sig fn evaluate(&self, input: &dyn ValueView, _runtime: &dyn Runtime) -> (res: Result<Value>)
//@ spec
    ensures
        res is Ok,
        // a string counts its characters (never bytes), an array its elements, an object its entries, anything else is 0
        res matches Ok(v) ==> (input.scalar_of() matches Some(s) ==> v.num() == Some(Num::Int(s.text().chars_view().len() as i64))),     // [C13:size_counts_characters]
        res matches Ok(v) ==> ((input.scalar_of() is None && input.array_of() is Some) ==> v.num() == Some(Num::Int(input.array_of().unwrap().len() as i64))),   // [C14:size_agrees_with_indexing]
//@ prologue
    broadcast use group_kstr;
//@ end
}

} // verus!
fn main() {}

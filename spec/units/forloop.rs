//@ unit forloop
//@ serves C05 C08 C04 C10 C02
//@ rlimit 30
//@ include prelude/header.rs
use vstd::std_specs::iter::*;
verus! {
//@ include prelude/std.rs
//@ include prelude/error.rs
//@ include prelude/runtime.rs
//@ include prelude/value.rs
//@ include prelude/render.rs
//@ include prelude/expr.rs

// ---------------- assumed environment of For::render_to (stand-ins; trusted) ----------------
pub mod liquid_core_paths { }
impl KString {
    #[verifier::external_body]
    pub fn as_ref(&self) -> (r: KStringRef) ensures r.view() == self.view() { unimplemented!() }
}
#[verifier::external_body]
pub struct KStringRef { _p: u8 }
impl KStringRef { pub uninterp spec fn view(&self) -> Seq<char>; }
impl From<&str> for KStringRef {
    #[verifier::external_body]
    fn from(s: &str) -> (r: KStringRef) ensures r.view() == s@ { unimplemented!() }
}
/// runtime::Template as its callers see it (proved for the real body in unit `sink`)
#[verifier::external_body]
pub struct Template { _p: u8 }
impl Template {
    pub uninterp spec fn rid(&self) -> RId;
    #[verifier::external_body]
    pub fn render_to(&self, writer: &mut Sink, runtime: &dyn Runtime) -> (r: Result<()>)
        requires !old(writer).failed@,                                                      // [C10:no_write_after_failure]
                 runtime.writable(),
        ensures renders_as_child(self.rid(), runtime.ident(), *old(writer), *final(writer), r)
    { unimplemented!() }
}
impl ValueView for ValueCow {
    open spec fn vid_of(&self) -> VId { self.vid() }
    uninterp spec fn scalar_of(&self) -> Option<ScalarCow>;
    uninterp spec fn kstr_of(&self) -> KStringCow;
    uninterp spec fn array_of(&self) -> Option<Seq<VId>>;
    uninterp spec fn nil_of(&self) -> bool;
    uninterp spec fn object_size_of(&self) -> Option<int>;
    #[verifier::external_body]
    fn as_object(&self) -> (r: Option<&dyn ObjectView>) { unimplemented!() }
    #[verifier::external_body]
    fn is_nil(&self) -> (r: bool) { unimplemented!() }
    #[verifier::external_body]
    fn as_scalar(&self) -> (r: Option<ScalarCow>) { unimplemented!() }
    #[verifier::external_body]
    fn to_kstr(&self) -> (r: KStringCow) { unimplemented!() }
    #[verifier::external_body]
    fn to_value(&self) -> (r: Value) { unimplemented!() }
    #[verifier::external_body]
    fn as_array(&self) -> (r: Option<&dyn ArrayView>) { unimplemented!() }
}
impl ValueCow {
    #[verifier::external_body]
    pub fn type_name(&self) -> &'static str { unimplemented!() }
}

/// the collection a loop runs over, after `range.evaluate()` / `iter_array` (stand-in for Vec<ValueCow<'_>>)
#[verifier::external_body]
pub struct ValArray { _p: u8 }
impl ValArray {
    pub uninterp spec fn ids(&self) -> Seq<VId>;
    #[verifier::external_body]
    pub fn len(&self) -> (r: usize) ensures r == self.ids().len(), r <= isize::MAX as usize { unimplemented!() }
    #[verifier::external_body]
    pub fn is_empty(&self) -> (r: bool) ensures r == (self.ids().len() == 0) { unimplemented!() }
    #[verifier::external_body]
    pub fn into_iter(self) -> (r: ValArrayIter) ensures r.ids() == self.ids() { unimplemented!() }
}
#[verifier::external_body]
pub struct ValArrayIter { _p: u8 }
impl ValArrayIter {
    pub uninterp spec fn ids(&self) -> Seq<VId>;
    /// `.enumerate()`: pairs (position, element), positions counting from 0
    #[verifier::external_body]
    pub fn enumerate(self) -> (r: EnumIter)
        ensures r.rest().len() == self.ids().len(),
                forall|j: int| 0 <= j < self.ids().len() ==> (#[trigger] r.rest()[j]).0 == j && r.rest()[j].1.vid() == self.ids()[j]
    { unimplemented!() }
}
#[verifier::external_body]
pub struct EnumIter { _p: u8 }
impl EnumIter { pub uninterp spec fn rest(&self) -> Seq<(usize, ValueCow)>; }
impl Iterator for EnumIter {
    type Item = (usize, ValueCow);
    #[verifier::external_body]
    fn next(&mut self) -> (r: Option<(usize, ValueCow)>)
        ensures
            old(self).rest().len() == 0 ==> r is None && final(self).rest() == old(self).rest(),
            old(self).rest().len() > 0 ==> r == Some(old(self).rest()[0]) && final(self).rest() == old(self).rest().drop_first(),
    { unimplemented!() }
}
impl IteratorSpecImpl for EnumIter {
    open spec fn obeys_prophetic_iter_laws(&self) -> bool { true }
    open spec fn remaining(&self) -> Seq<(usize, ValueCow)> { self.rest() }
    open spec fn will_return_none(&self) -> bool { true }
    open spec fn decrease(&self) -> Option<nat> { Some(self.rest().len()) }
    open spec fn peek(&self, i: int) -> Option<(usize, ValueCow)> { if 0 <= i < self.rest().len() { Some(self.rest()[i]) } else { None } }
}

/// window selection as proved for the real `iter_array` in unit `loop` (same definitions, same contract)
pub open spec fn window_offset(n: int, offset: int) -> int { if offset <= n { offset } else { n } }
pub open spec fn window_len(n: int, limit: Option<usize>, offset: int) -> int {
    let o = window_offset(n, offset);
    match limit { Some(l) => if (l as int) < n - o { l as int } else { n - o }, None => n - o }
}
pub open spec fn window<T>(s: Seq<T>, limit: Option<usize>, offset: int, reversed: bool) -> Seq<T> {
    let o = window_offset(s.len() as int, offset);
    let l = window_len(s.len() as int, limit, offset);
    let sel = s.subrange(o, o + l);
    if reversed { sel.reverse() } else { sel }
}
#[verifier::external_body]
fn iter_array(range: ValArray, limit: Option<usize>, offset: usize, reversed: bool) -> (r: ValArray)
    ensures r.ids() =~= window(range.ids(), limit, offset as int, reversed)
{ unimplemented!() }

/// the collection expression of the loop (array, object or integer range) and its evaluation (assumed)
#[verifier::external_body]
pub struct RangeExpression { _p: u8 }
#[verifier::external_body]
pub struct Range { _p: u8 }
impl RangeExpression {
    pub uninterp spec fn denotes(&self, rt: &dyn Runtime) -> Option<Seq<VId>>;
    #[verifier::external_body]
    pub fn evaluate(&self, runtime: &dyn Runtime) -> (r: Result<Range>)
        ensures r matches Ok(x) ==> x.pending() == self.denotes(runtime), r is Err ==> self.denotes(runtime) is None
    { unimplemented!() }
}
impl Range {
    pub uninterp spec fn pending(&self) -> Option<Seq<VId>>;
    #[verifier::external_body]
    pub fn evaluate(&self) -> (r: Result<ValArray>)
        ensures r matches Ok(a) ==> self.pending() == Some(a.ids()), r is Err ==> self.pending() is None
    { unimplemented!() }
}
#[verifier::external_body]
fn unexpected_value_error<S>(expected: &str, actual: Option<S>) -> Error { unimplemented!() }
/// liquid_core::model::Object as TableRow::render_to uses it (a write-only helper map)
#[verifier::external_body]
pub struct Object { _p: u8 }
impl Object {
    #[verifier::external_body]
    pub fn new() -> Object { unimplemented!() }
    #[verifier::external_body]
    pub fn insert(&mut self, k: KString, v: Value) -> Option<Value> { unimplemented!() }
}
impl From<&str> for KString {
    #[verifier::external_body]
    fn from(s: &str) -> (r: KString) ensures r.view() == s@ { unimplemented!() }
}

/// the per-iteration scope: a map name -> value identity, layered over the enclosing runtime
pub struct RootMap { pub m: Ghost<Map<Seq<char>, VId>> }
/// what can be bound in a scope: a borrowed view (`&forloop`, `&v`) or an owned/borrowed ValueCow
pub trait HasVid { spec fn the_vid(self) -> VId; }
impl<T: ValueView> HasVid for &T { open spec fn the_vid(self) -> VId { self.vid_of() } }
impl HasVid for ValueCow { open spec fn the_vid(self) -> VId { self.vid() } }
impl RootMap {
    #[verifier::external_body]
    pub fn new() -> (r: RootMap) ensures r.m@ == Map::<Seq<char>, VId>::empty() { unimplemented!() }
    #[verifier::external_body]
    pub fn insert<V: HasVid>(&mut self, k: KStringRef, v: V) -> (r: Option<u8>)
        ensures final(self).m@ == old(self).m@.insert(k.view(), v.the_vid())
    { unimplemented!() }
}
pub uninterp spec fn scope_ident(parent: RtId, m: Map<Seq<char>, VId>) -> RtId;
pub struct ScopeFrame<'a> { pub parent: &'a dyn Runtime, pub data: &'a RootMap, pub regs: Registers }
impl<'a> Runtime for ScopeFrame<'a> {
    open spec fn ident(&self) -> RtId { scope_ident(self.parent.ident(), self.data.m@) }
    /// a plain scope forwards writes to its parent (unit `stack`: StackFrame::set_global / set_index)
    open spec fn writable(&self) -> bool { self.parent.writable() }
    #[verifier::external_body]
    fn registers(&self) -> (r: &Registers) { unimplemented!() }
}
pub struct StackFrame;
impl StackFrame {
    #[verifier::external_body]
    pub fn new<'a>(parent: &'a dyn Runtime, data: &'a RootMap) -> (r: ScopeFrame<'a>)
        ensures r.parent == parent, r.data == data
    { unimplemented!() }
}
/// partial templates by name (stand-in for runtime::PartialStore; `get` fails exactly when the name is unknown)
/// what `name` resolves to in the store with identity `store`
pub uninterp spec fn partial_named(store: Seq<int>, name: Seq<char>) -> Option<RId>;
pub trait PartialStore {
    spec fn id(&self) -> Seq<int>;
    fn get(&self, name: &str) -> (r: Result<Box<dyn Renderable>>)
        ensures r matches Ok(p) ==> partial_named(self.id(), name@) == Some(p.rid()),
                r is Err ==> partial_named(self.id(), name@) is None;
}
/// the partial store a runtime (and every scope layered on it) hands out
pub uninterp spec fn store_of(rt: RtId) -> Seq<int>;
impl<'a> ScopeFrame<'a> {
    #[verifier::external_body]
    pub fn partials(&self) -> (r: &dyn PartialStore) ensures r.id() == store_of(self.parent.ident()) { unimplemented!() }
}

/// render's scope: a fresh global layer over a sandbox that never consults its parent for variables (unit `stack`):
/// its identity is a function of the bound arguments only - NOT of the caller's scope
pub uninterp spec fn isolated_ident(m: Map<Seq<char>, VId>) -> RtId;
pub struct Sandboxed<'a> { pub parent: &'a dyn Runtime, pub data: &'a RootMap }
pub struct SandboxedStackFrame;
impl SandboxedStackFrame {
    #[verifier::external_body]
    pub fn new<'a>(parent: &'a dyn Runtime, data: &'a RootMap) -> (r: Sandboxed<'a>) ensures r.parent == parent, r.data == data { unimplemented!() }
}
pub struct IsolatedFrame<'a> { pub inner: Sandboxed<'a>, pub regs: Registers }
pub struct GlobalFrame;
impl GlobalFrame {
    #[verifier::external_body]
    pub fn new<'a>(inner: Sandboxed<'a>) -> (r: IsolatedFrame<'a>) ensures r.inner == inner { unimplemented!() }
}
impl<'a> Runtime for IsolatedFrame<'a> {
    open spec fn ident(&self) -> RtId { isolated_ident(self.inner.data.m@) }
    /// render's scope: its own global layer over a sandbox that forwards counter writes to the caller's runtime
    /// (unit `stack`: GlobalFrame::set_global is its own cell, SandboxedStackFrame::set_index forwards)
    open spec fn writable(&self) -> bool { self.inner.parent.writable() }
    #[verifier::external_body]
    fn registers(&self) -> (r: &Registers) { unimplemented!() }
}
impl<'a> IsolatedFrame<'a> {
    #[verifier::external_body]
    pub fn partials(&self) -> (r: &dyn PartialStore) ensures r.id() == store_of(self.inner.parent.ident()) { unimplemented!() }
}
impl ValueCow {
    #[verifier::external_body]
    pub fn is_scalar(&self) -> bool { unimplemented!() }
    #[verifier::external_body]
    pub fn source(&self) -> String { unimplemented!() }
    #[verifier::external_body]
    pub fn to_kstr(&self) -> (r: KStringCow) ensures r.chars_view() == vid_text(self.vid()) { unimplemented!() }
    /// `liquid_core::ValueCow::Borrowed(&x)`
    #[verifier::external_body]
    pub fn Borrowed<T: ValueView>(v: &T) -> (r: ValueCow) ensures r.vid() == v.vid_of() { unimplemented!() }
}
/// the text a (scalar) value spells: the partial's name
pub uninterp spec fn vid_text(v: VId) -> Seq<char>;
impl Error {
    #[verifier::external_body]
    pub fn with_msg(msg: &'static str) -> Error { unimplemented!() }
    #[verifier::external_body]
    pub fn context<K, V>(self, key: K, value: V) -> Error { unimplemented!() }
}
/// `runtime.try_get(&[Scalar::new("forloop")])`: the enclosing loop's forloop object, if any
pub uninterp spec fn parent_forloop(rt: RtId) -> Option<VId>;
#[verifier::external_body]
fn runtime_try_get_forloop(runtime: &dyn Runtime) -> (r: Option<ValueCow>)
    ensures r matches Some(v) ==> parent_forloop(runtime.ident()) == Some(v.vid()), r is None ==> parent_forloop(runtime.ident()) is None
{ unimplemented!() }

//@ item crates/core/src/runtime/runtime.rs :: enum Interrupt
//@ kind enum
//@ vis pub
//@ end
#[verifier::external_body]
pub struct InterruptRegister { _p: u8 }
impl RegisterDefault for InterruptRegister { }
impl InterruptRegister {
    #[verifier::external_body]
    pub fn reset(&mut self) -> Option<Interrupt> { unimplemented!() }
}
}
//@ include prelude/render_macros.rs
verus! {

// ---------------- loop metadata (real text; proved in unit `loop`, re-proved here because the bodies are inlined) ----------------
//@ item crates/lib/src/stdlib/blocks/for_block.rs :: struct ForloopObject
//@ kind struct
//@ vis pub
//@ end
/// identity of the forloop object handed to the body: a function of ALL its fields
pub uninterp spec fn forloop_vid(length: i64, parent: Option<VId>, index0: i64, index: i64, rindex0: i64, rindex: i64, first: bool, last: bool) -> VId;
pub open spec fn dyn_vid(v: Option<&dyn ValueView>) -> Option<VId> { match v { Some(x) => Some(x.vid_of()), None => None } }
impl<'p> ValueView for ForloopObject<'p> {
    open spec fn vid_of(&self) -> VId {
        forloop_vid(self.length, dyn_vid(self.parentloop), self.index0, self.index, self.rindex0, self.rindex, self.first, self.last)
    }
    uninterp spec fn scalar_of(&self) -> Option<ScalarCow>;
    uninterp spec fn kstr_of(&self) -> KStringCow;
    uninterp spec fn array_of(&self) -> Option<Seq<VId>>;
    uninterp spec fn nil_of(&self) -> bool;
    uninterp spec fn object_size_of(&self) -> Option<int>;
    #[verifier::external_body]
    fn as_object(&self) -> (r: Option<&dyn ObjectView>) { unimplemented!() }
    #[verifier::external_body]
    fn is_nil(&self) -> (r: bool) { unimplemented!() }
    #[verifier::external_body]
    fn as_scalar(&self) -> (r: Option<ScalarCow>) { unimplemented!() }
    #[verifier::external_body]
    fn to_kstr(&self) -> (r: KStringCow) { unimplemented!() }
    #[verifier::external_body]
    fn to_value(&self) -> (r: Value) { unimplemented!() }
    #[verifier::external_body]
    fn as_array(&self) -> (r: Option<&dyn ArrayView>) { unimplemented!() }
}
/// the truthful forloop object of iteration i of n under the enclosing loop `parent`
pub open spec fn truthful_forloop(i: int, n: int, parent: Option<VId>) -> VId {
    forloop_vid(n as i64, parent, i as i64, (i + 1) as i64, (n - i - 1) as i64, (n - i) as i64, i == 0, i == n - 1)
}
impl<'p> ForloopObject<'p> {
//@ item crates/lib/src/stdlib/blocks/for_block.rs :: impl ForloopObject<'p>::new
//@ props C05 C02
//@ safety C02 C05
//@ sig pub fn new(i: usize, len: usize) -> (r: Self)
//@ spec
    requires i < len, len <= isize::MAX as usize,
    ensures
        r.length == len, r.index0 == i, r.index == i + 1, r.rindex0 == len - i - 1, r.rindex == len - i,
        r.first == (i == 0), r.last == (i == len - 1), r.parentloop is None,                       // [C05:forloop_fields_truthful]
//@ end
    /// `fn parentloop(mut self, ..)`: `mut self` is outside Verus; its two-line body (set the field, return self) is assumed
    #[verifier::external_body]
    fn parentloop(self, parentloop: Option<&'p dyn ValueView>) -> (r: Self)
        ensures r == (ForloopObject { parentloop: parentloop, ..self })
    { unimplemented!() }
}

// ---------------- limit / offset attributes ----------------
/// Rust's `i as usize` on an i64 (wrapping)
pub open spec fn wrap_usize(i: i64) -> usize { if i >= 0 { i as usize } else { (i + 0x1_0000_0000_0000_0000) as usize } }
/// what an attribute denotes: Some(None) absent, Some(Some(n)) a whole number, None an error (does not exist / not a whole number)
pub open spec fn attr_spec(attr: &Option<Expression>, rt: &dyn Runtime) -> Option<Option<usize>> {
    match attr {
        None => Some(None),
        Some(e) => match e.denotes(rt) {
            None => None,
            Some(v) => match vid_int(v) { Some(i) => Some(Some(wrap_usize(i))), None => None },
        },
    }
}
//@ item crates/lib/src/stdlib/blocks/for_block.rs :: fn evaluate_attr
//@ props C05 C02
//@ sig fn evaluate_attr(attr: &Option<Expression>, runtime: &dyn Runtime) -> (r: Result<Option<usize>>)
//@ spec
    ensures
        r matches Ok(o) ==> attr_spec(attr, runtime) == Some(o),                // [C05:limit_offset_are_the_evaluated_attributes]
        r is Err ==> attr_spec(attr, runtime) is None,
//@ editre <<\?\s+as usize;>> => <<?; proof { assert(value < 0 ==> (#[verifier::truncate] (value as usize)) == (value + 0x1_0000_0000_0000_0000) as usize) by (bit_vector); } let value = #[verifier::truncate] (value as usize);>> why: Rust's `as` wraps; Verus otherwise leaves an out-of-range cast unspecified (the cast is moved to its own statement so that the ghost fact can precede it)
//@ closure 0 arg_of=and_then params=s
|s: ScalarCow| -> (o: Option<i64>) ensures o == s.int_view()
//@ closure 1 arg_of=ok_or_else params=
|| -> (e: Error)
//@ end

// ---------------- For::render_to ----------------
//@ item crates/lib/src/stdlib/blocks/for_block.rs :: struct For
//@ kind struct
//@ end
impl For {
    #[verifier::external_body]
    fn trace(&self) -> String { unimplemented!() }
    /// the selected elements: None = evaluating the collection or an attribute failed
    spec fn sel(&self, rt: &dyn Runtime) -> Option<Seq<VId>> {
        match (self.range.denotes(rt), attr_spec(&self.limit, rt), attr_spec(&self.offset, rt)) {
            (Some(a), Some(l), Some(o)) => Some(window(a, l, (match o { Some(x) => x, None => 0usize }) as int, self.reversed)),
            _ => None,
        }
    }
    /// iteration i of the loop: the body rendered once, in a scope that binds the loop variable to the i-th selected
    /// element and `forloop` to the truthful loop object (with the enclosing loop as parentloop)
    spec fn iteration(&self, rt: RtId, s: Seq<VId>, i: int) -> Ev {
        Ev::Child(self.item_template.rid(), scope_ident(rt,
            Map::<Seq<char>, VId>::empty()
                .insert("forloop"@, truthful_forloop(i, s.len() as int, parent_forloop(rt)))
                .insert(self.var_name.view(), s[i])))
    }
    spec fn iterations(&self, rt: RtId, s: Seq<VId>, k: int) -> Seq<Ev> {
        Seq::new(k as nat, |i: int| self.iteration(rt, s, i))
    }
    proof fn lemma_iterations_step(&self, rt: RtId, s: Seq<VId>, k: int, pre: Seq<Ev>)
        requires 0 <= k < s.len(),
        ensures (pre + self.iterations(rt, s, k)).push(self.iteration(rt, s, k)) == pre + self.iterations(rt, s, k + 1),
                pre + self.iterations(rt, s, 0) == pre,
    {
        assert((pre + self.iterations(rt, s, k)).push(self.iteration(rt, s, k)) =~= pre + self.iterations(rt, s, k + 1));
        assert(pre + self.iterations(rt, s, 0) =~= pre);
    }
//@ item crates/lib/src/stdlib/blocks/for_block.rs :: impl Renderable for For::render_to
//@ props C05 C10 C02
//@ safety C02 C05
//@ sig fn render_to(&self, writer: &mut Sink, runtime: &dyn Runtime) -> (r: Result<()>)
//@ spec
    requires !old(writer).failed@,
        runtime.writable(),                                                            // [C02:scope_has_assignment_and_counter_layers]
    ensures
        sink_safe(*old(writer), *final(writer), r),                                                   // [C10:for_failed_sink_is_error]
        r is Ok ==> self.sel(runtime) is Some,
        // nothing selected: the else branch, if there is one, exactly once; otherwise nothing
        r is Ok ==> (self.sel(runtime) matches Some(s) && (s.len() == 0 ==> final(writer).log@ =~= old(writer).log@ + (
            match self.else_template { Some(t) => seq![Ev::Child(t.rid(), runtime.ident())], None => Seq::<Ev>::empty() }))),     // [C05:else_branch_exactly_when_nothing_selected]
        // otherwise: the selected elements, in order, once each, each with a truthful forloop; a break may cut the visit short
        r is Ok ==> (self.sel(runtime) matches Some(s) && (s.len() > 0 ==> (exists|k: int| 1 <= k <= s.len() &&
            final(writer).log@ == old(writer).log@ + #[trigger] self.iterations(runtime.ident(), s, k)))),                         // [C05:visits_selected_elements_in_order_with_truthful_forloop]
//@ edit <<runtime.try_get(&[liquid_core::model::Scalar::new("forloop")])>> => <<runtime_try_get_forloop(runtime)>> why: the fixed-path lookup of the enclosing forloop is a stand-in call (slice literals of stand-in scalars add nothing)
//@ editre <<std::collections::HashMap::<\s*liquid_core::model::KStringRef<'_>,\s*&dyn ValueView,\s*>::new\(\)>> => <<RootMap::new()>> why: std HashMap is outside Verus; stand-in map with the same insert contract
//@ edit <<for (i, v) in array.into_iter().enumerate()>> => <<for (i, v) in it: array.into_iter().enumerate()>> why: names Verus' ghost iterator so that the invariant can refer to the position
//@ closure 0 arg_of=trace_with params=
|| -> (k: KString)
//@ closure 1 arg_of=trace_with params=
|| -> (k: KString)
//@ closure 2 arg_of=map params=v
|v: &ValueCow| -> (d: &dyn ValueView) ensures d.vid_of() == v.vid()
//@ closure 3 arg_of=trace_with params=
|| -> (k: KString)
//@ closure 4 arg_of=value_with params=
|| -> (k: KString) requires i < isize::MAX as usize
//@ loop 0 kind=for
    invariant_except_break
        writer.log@ == old(writer).log@ + self.iterations(runtime.ident(), sel_ghost@, it.index@),    // [C05:each_iteration_binds_the_next_selected_element_and_a_truthful_forloop]
    invariant
        !writer.failed@, runtime.writable(),
        0 <= it.index@ <= range_len,
        range_len == sel_ghost@.len(), 0 < range_len <= isize::MAX as usize,
        self.sel(runtime) == Some(sel_ghost@),
        it.seq().len() == range_len,
        forall|j: int| 0 <= j < range_len ==> (#[trigger] it.seq()[j]).0 == j && it.seq()[j].1.vid() == sel_ghost@[j],
        dyn_vid(parentloop_ref) == parent_forloop(runtime.ident()),
    ensures
        exists|k: int| 1 <= k <= range_len && writer.log@ == old(writer).log@ + #[trigger] self.iterations(runtime.ident(), sel_ghost@, k),
//@ ghost before <<match array.len()>>
    let ghost sel_ghost = Ghost(array.ids());
//@ ghost after <<.value_with(|| format!("{}", i + 1).into())?;>>
    proof { self.lemma_iterations_step(runtime.ident(), sel_ghost@, it.index@, old(writer).log@); }
//@ end
}

// ---------------- TableRow::render_to ----------------
//@ item crates/lib/src/stdlib/blocks/for_block.rs :: struct TableRowObject
//@ kind struct
//@ vis pub
//@ end
pub uninterp spec fn tablerow_vid(length: i64, index0: i64, index: i64, rindex0: i64, rindex: i64, first: bool, last: bool,
                                 col0: i64, col: i64, col_first: bool, col_last: bool) -> VId;
impl ValueView for TableRowObject {
    open spec fn vid_of(&self) -> VId {
        tablerow_vid(self.length, self.index0, self.index, self.rindex0, self.rindex, self.first, self.last, self.col0, self.col, self.col_first, self.col_last)
    }
    uninterp spec fn scalar_of(&self) -> Option<ScalarCow>;
    uninterp spec fn kstr_of(&self) -> KStringCow;
    uninterp spec fn array_of(&self) -> Option<Seq<VId>>;
    uninterp spec fn nil_of(&self) -> bool;
    uninterp spec fn object_size_of(&self) -> Option<int>;
    #[verifier::external_body]
    fn as_object(&self) -> (r: Option<&dyn ObjectView>) { unimplemented!() }
    #[verifier::external_body]
    fn is_nil(&self) -> (r: bool) { unimplemented!() }
    #[verifier::external_body]
    fn as_scalar(&self) -> (r: Option<ScalarCow>) { unimplemented!() }
    #[verifier::external_body]
    fn to_kstr(&self) -> (r: KStringCow) { unimplemented!() }
    #[verifier::external_body]
    fn to_value(&self) -> (r: Value) { unimplemented!() }
    #[verifier::external_body]
    fn as_array(&self) -> (r: Option<&dyn ArrayView>) { unimplemented!() }
}
/// the truthful tablerow object of element i of n laid out in c columns
pub open spec fn truthful_tablerow(i: int, n: int, c: int) -> VId {
    tablerow_vid(n as i64, i as i64, (i + 1) as i64, (n - i - 1) as i64, (n - i) as i64, i == 0, i == n - 1,
                 (i % c) as i64, (i % c + 1) as i64, i % c == 0, (i % c == c - 1) || i == n - 1)
}
impl TableRowObject {
//@ item crates/lib/src/stdlib/blocks/for_block.rs :: impl TableRowObject::new
//@ props C05 C02
//@ safety C02 C05
//@ sig fn new(i: usize, len: usize, col: usize, cols: usize) -> (r: Self)
//@ spec
    requires i < len, len <= isize::MAX as usize, 1 <= cols, col == i % cols,    // cols: ANY positive usize (a negative attribute wraps to a huge one)
    ensures r.vid_of() == truthful_tablerow(i as int, len as int, cols as int),                 // [C05:tablerow_fields_truthful]
            r.col_first == (i % cols == 0), r.col_last == ((i % cols == cols - 1) || i == len - 1),
//@ prologue
    proof {
        assert((i as int) % (cols as int) <= i as int && (i as int) % (cols as int) >= 0) by (nonlinear_arith) requires cols > 0, i >= 0;
        if cols > i { vstd::arithmetic::div_mod::lemma_small_mod(i as nat, cols as nat); }
    }
//@ edit <<let cols = cols as i64;>> => <<proof { assert(cols >= 0x8000_0000_0000_0000usize ==> (#[verifier::truncate] (cols as i64)) < 0) by (bit_vector); } let cols = #[verifier::truncate] (cols as i64);>> why: Rust's `as` wraps; Verus otherwise leaves an out-of-range cast unspecified
//@ end
}
//@ item crates/lib/src/stdlib/blocks/for_block.rs :: struct TableRow
//@ kind struct
//@ end
impl TableRow {
    #[verifier::external_body]
    fn trace(&self) -> String { unimplemented!() }
    spec fn sel(&self, rt: &dyn Runtime) -> Option<Seq<VId>> {
        match (self.range.denotes(rt), attr_spec(&self.limit, rt), attr_spec(&self.offset, rt)) {
            (Some(a), Some(l), Some(o)) => Some(window(a, l, (match o { Some(x) => x, None => 0usize }) as int, false)),
            _ => None,
        }
    }
    /// number of columns: the `cols` attribute, or one row holding everything
    spec fn ncols(&self, rt: &dyn Runtime, n: int) -> int {
        match attr_spec(&self.cols, rt) { Some(Some(c)) => c as int, _ => n }
    }
    /// what element i contributes: row opening if it starts a row, the cell, the body in its own scope, cell and row closing
    spec fn cell(&self, rt: RtId, s: Seq<VId>, c: int, i: int) -> Seq<Ev> {
        let n = s.len() as int;
        (if i % c == 0 { seq![Ev::Write("<tr class=\"row{}\">"@)] } else { Seq::<Ev>::empty() })
        + seq![Ev::Write("<td class=\"col{}\">"@),
               Ev::Child(self.item_template.rid(), scope_ident(rt, Map::<Seq<char>, VId>::empty()
                    .insert("tablerow"@, truthful_tablerow(i, n, c)).insert(self.var_name.view(), s[i]))),
               Ev::Write("</td>"@)]
        + (if (i % c == c - 1) || i == n - 1 { seq![Ev::Write("</tr>"@)] } else { Seq::<Ev>::empty() })
    }
    spec fn cells(&self, rt: RtId, s: Seq<VId>, c: int, k: int) -> Seq<Ev>
        decreases k
    {
        if k <= 0 { Seq::<Ev>::empty() } else { self.cells(rt, s, c, k - 1) + self.cell(rt, s, c, k - 1) }
    }
    proof fn lemma_cell_step(&self, rt: RtId, s: Seq<VId>, c: int, k: int, base: Seq<Ev>, log0: Seq<Ev>, log5: Seq<Ev>, sid: RtId)
        requires
            0 <= k < s.len(), c != 0, log0 == base + self.cells(rt, s, c, k),
            sid == scope_ident(rt, Map::<Seq<char>, VId>::empty().insert("tablerow"@, truthful_tablerow(k, s.len() as int, c)).insert(self.var_name.view(), s[k])),
            log5 == log0
                + (if k % c == 0 { seq![Ev::Write("<tr class=\"row{}\">"@)] } else { Seq::<Ev>::empty() })
                + seq![Ev::Write("<td class=\"col{}\">"@), Ev::Child(self.item_template.rid(), sid), Ev::Write("</td>"@)]
                + (if (k % c == c - 1) || k == s.len() - 1 { seq![Ev::Write("</tr>"@)] } else { Seq::<Ev>::empty() }),
        ensures log5 == base + self.cells(rt, s, c, k + 1),
    {
        let a = if k % c == 0 { seq![Ev::Write("<tr class=\"row{}\">"@)] } else { Seq::<Ev>::empty() };
        let b = seq![Ev::Write("<td class=\"col{}\">"@), Ev::Child(self.item_template.rid(), sid), Ev::Write("</td>"@)];
        let d = if (k % c == c - 1) || k == s.len() - 1 { seq![Ev::Write("</tr>"@)] } else { Seq::<Ev>::empty() };
        assert(self.cell(rt, s, c, k) =~= a + b + d);
        assert(self.cells(rt, s, c, k + 1) == self.cells(rt, s, c, k) + self.cell(rt, s, c, k));
        assert(log0 + a + b + d =~= base + (self.cells(rt, s, c, k) + (a + b + d)));
    }
//@ item crates/lib/src/stdlib/blocks/for_block.rs :: impl Renderable for TableRow::render_to
//@ props C05 C10 C02
//@ safety C02 C05
//@ sig fn render_to(&self, writer: &mut Sink, runtime: &dyn Runtime) -> (r: Result<()>)
//@ spec
    requires !old(writer).failed@,
        runtime.writable(),                                                            // [C02:scope_has_assignment_and_counter_layers]
    ensures
        sink_safe(*old(writer), *final(writer), r),                                                   // [C10:tablerow_failed_sink_is_error]
        // every selected element, in order, once: row/cell markup, the body in a scope with the element and a truthful tablerow
        r is Ok ==> (self.sel(runtime) matches Some(s) &&
            final(writer).log@ == old(writer).log@ + self.cells(runtime.ident(), s, self.ncols(runtime, s.len() as int), s.len() as int)),   // [C05:tablerow_visits_selected_elements_with_truthful_fields]
        // zero columns is an error, not a crash
        (attr_spec(&self.cols, runtime) == Some(Some(0usize)) && self.range.denotes(runtime) is Some) ==> r is Err,         // [C02:tablerow_zero_columns_is_an_error]
//@ editre <<std::collections::HashMap::<\s*liquid_core::model::KStringRef<'_>,\s*&dyn ValueView,\s*>::new\(\)>> => <<RootMap::new()>> why: std HashMap is outside Verus; stand-in map with the same insert contract
//@ edit <<for (i, v) in array.into_iter().enumerate()>> => <<for (i, v) in it: array.into_iter().enumerate()>> why: names Verus' ghost iterator so that the invariant can refer to the position
//@ closure 0 arg_of=trace_with params=
|| -> (k: KString)
//@ closure 1 arg_of=trace_with params=
|| -> (k: KString)
//@ closure 2 arg_of=value_with params=
|| -> (k: KString) requires i < isize::MAX as usize
//@ loop 0 kind=for
    invariant
        !writer.failed@, runtime.writable(),
        0 <= it.index@ <= range_len,
        range_len == sel_ghost@.len(), range_len <= isize::MAX as usize,
        self.sel(runtime) == Some(sel_ghost@),
        cols == (match attr_spec(&self.cols, runtime) { Some(c) => c, None => None::<usize> }), cols != Some(0usize),
        it.seq().len() == range_len,
        forall|j: int| 0 <= j < range_len ==> (#[trigger] it.seq()[j]).0 == j && it.seq()[j].1.vid() == sel_ghost@[j],
        writer.log@ == old(writer).log@ + self.cells(runtime.ident(), sel_ghost@, self.ncols(runtime, range_len as int), it.index@),   // [C05:each_cell_binds_the_next_selected_element_and_a_truthful_tablerow]
//@ ghost before <<let mut helper_vars = Object::new();>>
    let ghost sel_ghost = Ghost(array.ids());
//@ ghost before <<let cols = cols.unwrap_or(range_len);>>
    let ghost log0 = writer.log@;
//@ ghost after <<write!(writer, "</tr>").replace("Failed to render")?;\n            }>>
    proof {
        let k = it.index@; let c = self.ncols(runtime, range_len as int); let rt = runtime.ident(); let s = sel_ghost@;
        assert(c == cols as int);
        let a = if k % c == 0 { seq![Ev::Write("<tr class=\"row{}\">"@)] } else { Seq::<Ev>::empty() };
        let b = seq![Ev::Write("<td class=\"col{}\">"@), Ev::Child(self.item_template.rid(), scope.ident()), Ev::Write("</td>"@)];
        let d = if (k % c == c - 1) || k == s.len() - 1 { seq![Ev::Write("</tr>"@)] } else { Seq::<Ev>::empty() };
        assert(writer.log@ =~= log0 + a + b + d);
        self.lemma_cell_step(rt, s, c, k, old(writer).log@, log0, writer.log@, scope.ident());
    }
//@ end
}

// ---------------- include / render (C08) ----------------
/// the arguments `k: v` of include / render, evaluated left to right in the CALLER's scope with the non-failing lookup;
/// None = one of them does not exist
spec fn args_map(vars: Seq<(KString, Expression)>, rt: &dyn Runtime, k: int, base: Map<Seq<char>, VId>) -> Option<Map<Seq<char>, VId>>
    decreases k
{
    if k <= 0 { Some(base) }
    else { match args_map(vars, rt, k - 1, base) {
        None => None,
        Some(m) => match vars[k - 1].1.denotes(rt) { None => None, Some(v) => Some(m.insert(vars[k - 1].0.view(), v)) },
    } }
}
//@ item crates/lib/src/stdlib/tags/include_tag.rs :: struct Include
//@ kind struct
//@ end
impl Include {
//@ item crates/lib/src/stdlib/tags/include_tag.rs :: impl Renderable for Include::render_to
//@ props C08 C04 C10 C02
//@ safety C02 C08
//@ sig fn render_to(&self, writer: &mut Sink, runtime: &dyn Runtime) -> (r: Result<()>)
//@ spec
    requires !old(writer).failed@,
        runtime.writable(),                                                            // [C02:scope_has_assignment_and_counter_layers]
    ensures
        sink_safe(*old(writer), *final(writer), r),                                                   // [C10:include_failed_sink_is_error]
        // include renders the named partial once, in a plain scope (its arguments) layered over the CALLER's runtime
        r is Ok ==> (self.partial.denotes(runtime) matches Some(pv)
            && args_map(self.vars@, runtime, self.vars@.len() as int, Map::empty()) matches Some(m)
            && partial_named(store_of(runtime.ident()), vid_text(pv)) matches Some(p)
            && final(writer).log@ == old(writer).log@.push(Ev::Child(p, scope_ident(runtime.ident(), m)))),      // [C08:include_shares_the_callers_scope] [C04:include_arguments_form_the_innermost_scope]
        // a missing partial is an error, never a silent blank
        (self.partial.denotes(runtime) matches Some(pv) && partial_named(store_of(runtime.ident()), vid_text(pv)) is None) ==> r is Err,   // [C08:missing_partial_is_an_error]
//@ edit <<std::collections::HashMap::new()>> => <<RootMap::new()>> why: std HashMap is outside Verus; stand-in map with the same insert contract
//@ edit <<for (id, val) in &self.vars>> => <<for (id, val) in it: &self.vars>> why: names Verus' ghost iterator so that the invariant can refer to the position
//@ loop 0 kind=for
    invariant
        0 <= it.index@ <= self.vars@.len(),
        !writer.failed@, runtime.writable(), writer.log@ == old(writer).log@,
        args_map(self.vars@, runtime, it.index@, Map::empty()) == Some(pass_through.m@),
//@ closure 0 arg_of=ok_or_else params=
|| -> (e: Error)
//@ closure 1 arg_of=trace_with params=
|| -> (k: KString)
//@ closure 2 arg_of=trace_with params=
|| -> (k: KString)
//@ closure 3 arg_of=context_key_with params=
|| -> (k: KString)
//@ closure 4 arg_of=value_with params=
|| -> (k: KString)
//@ end
}

//@ item crates/lib/src/stdlib/tags/render_tag.rs :: struct Render
//@ kind struct
//@ end
impl Render {
    /// the partial `render` runs: the one named by the expression, or (fallback `name.liquid`) one found under another spelling
    spec fn partial_ok(&self, rt: &dyn Runtime, p: RId) -> bool {
        match self.partial.denotes(rt) {
            None => false,
            Some(pv) => match partial_named(store_of(rt.ident()), vid_text(pv)) {
                Some(p0) => p == p0,
                None => exists|q: Seq<char>| partial_named(store_of(rt.ident()), q) == Some(p),
            },
        }
    }
    /// iteration i of `render ... for xs as x`: the partial in an ISOLATED scope holding the arguments, a truthful forloop
    /// (no parentloop: the caller's loops are invisible) and the i-th element
    spec fn for_iteration(&self, p: RId, args: Map<Seq<char>, VId>, var: Seq<char>, s: Seq<VId>, i: int) -> Ev {
        Ev::Child(p, isolated_ident(args.insert("forloop"@, truthful_forloop(i, s.len() as int, None)).insert(var, s[i])))
    }
    spec fn good_event(&self, rt: &dyn Runtime, m: Map<Seq<char>, VId>, var: Seq<char>, s: Seq<VId>, i: int, e: Ev) -> bool {
        exists|p: RId| #[trigger] self.partial_ok(rt, p) && e == self.for_iteration(p, m, var, s, i)
    }
    spec fn good_trace(&self, rt: &dyn Runtime, m: Map<Seq<char>, VId>, var: Seq<char>, s: Seq<VId>, trace: Seq<Ev>) -> bool {
        forall|i: int| 0 <= i < trace.len() ==> #[trigger] self.good_event(rt, m, var, s, i, trace[i])
    }
//@ item crates/lib/src/stdlib/tags/render_tag.rs :: impl Renderable for Render::render_to
//@ props C08 C05 C10 C02
//@ safety C02 C08
//@ sig fn render_to(&self, writer: &mut Sink, runtime: &dyn Runtime) -> (r: Result<()>)
//@ spec
    requires !old(writer).failed@,
        runtime.writable(),                                                            // [C02:scope_has_assignment_and_counter_layers]
    ensures
        sink_safe(*old(writer), *final(writer), r),                                                   // [C10:render_failed_sink_is_error]
        // plain render: the partial once, in a scope whose identity depends on the explicit arguments ONLY (never on the caller's scope)
        (r is Ok && self.for_ is None) ==> (args_map(self.vars@, runtime, self.vars@.len() as int, Map::empty()) matches Some(m)
            && self.partial.denotes(runtime) is Some
            && exists|p: RId| #[trigger] self.partial_ok(runtime, p) && final(writer).log@ == old(writer).log@.push(Ev::Child(p, isolated_ident(m)))),       // [C08:render_starts_from_its_explicit_arguments_only]
        // render-for: nothing for an empty collection; otherwise one isolated rendering per element, in order, each with a truthful forloop
        (r is Ok && self.for_ is Some) ==> (self.for_.unwrap().0.denotes(runtime) matches Some(s) && (s.len() == 0 ==> final(writer).log@ == old(writer).log@)),   // [C08:render_for_empty_collection_renders_nothing]
        (r is Ok && self.for_ is Some) ==> (self.for_.unwrap().0.denotes(runtime) matches Some(s) && (s.len() > 0 ==> (
            args_map(self.vars@, runtime, self.vars@.len() as int, Map::empty()) matches Some(m) && self.partial.denotes(runtime) is Some
            && exists|trace: Seq<Ev>| #[trigger] self.good_trace(runtime, m, self.for_.unwrap().1.view(), s, trace)
                && 1 <= trace.len() <= s.len() && final(writer).log@ == old(writer).log@ + trace))),   // [C08:render_for_binds_each_element_in_isolation] [C05:render_for_visits_elements_in_order_with_truthful_forloop]
//@ editall <<std::collections::HashMap::new()>> => <<RootMap::new()>> why: std HashMap is outside Verus; stand-in map with the same insert contract
//@ editall <<for (id, val) in &self.vars>> => <<for (id, val) in it2: &self.vars>> why: names Verus' ghost iterator so that the invariant can refer to the position
//@ edit <<for (i, v) in array.into_iter().enumerate()>> => <<for (i, v) in it: array.into_iter().enumerate()>> why: names Verus' ghost iterator so that the invariant can refer to the position
//@ ghost before <<if !array.is_empty() {>>
    let ghost sel = Ghost(array.ids()); let ghost mut trace: Seq<Ev> = Seq::<Ev>::empty();
//@ loop 0 kind=for
    invariant_except_break
        writer.log@ == old(writer).log@ + trace, trace.len() == it.index@,
    invariant
        !writer.failed@, runtime.writable(), 0 <= it.index@ <= len, len == sel@.len(), 0 < len <= isize::MAX as usize,
        self.for_ is Some, self.for_.unwrap().1 == *var_name,
        self.for_.unwrap().0.denotes(runtime) == Some(sel@),
        self.partial.denotes(runtime) == Some(value.vid()), name.view() == vid_text(value.vid()),
        it.seq().len() == len,
        forall|j: int| 0 <= j < len ==> (#[trigger] it.seq()[j]).0 == j && it.seq()[j].1.vid() == sel@[j],
        it.index@ > 0 ==> (args_map(self.vars@, runtime, self.vars@.len() as int, Map::empty()) matches Some(m)
            && self.good_trace(runtime, m, var_name.view(), sel@, trace)),
    ensures
        args_map(self.vars@, runtime, self.vars@.len() as int, Map::empty()) matches Some(m)
            && 1 <= trace.len() <= len && writer.log@ == old(writer).log@ + trace
            && self.good_trace(runtime, m, var_name.view(), sel@, trace),
//@ loop 1 kind=for
    invariant
        0 <= it2.index@ <= self.vars@.len(),
        !writer.failed@, runtime.writable(), writer.log@ == old(writer).log@ + trace,
        args_map(self.vars@, runtime, it2.index@, Map::empty()) == Some(root.m@),
//@ loop 2 kind=for
    invariant
        0 <= it2.index@ <= self.vars@.len(),
        !writer.failed@, runtime.writable(), writer.log@ == old(writer).log@,
        args_map(self.vars@, runtime, it2.index@, Map::empty()) == Some(root.m@),
//@ ghost after <<.value_with(|| format!("{}", i + 1).into())?;>>
    proof {
        let m0 = args_map(self.vars@, runtime, self.vars@.len() as int, Map::empty()).unwrap();
        let e = Ev::Child(partial.rid(), scope.ident());
        assert(self.partial_ok(runtime, partial.rid()));
        assert(e == self.for_iteration(partial.rid(), m0, var_name.view(), sel@, it.index@));
        assert(self.good_event(runtime, m0, var_name.view(), sel@, it.index@, e));
        let old_trace = trace;
        trace = trace.push(e);
        assert(self.good_trace(runtime, m0, var_name.view(), sel@, trace)) by {
            assert forall|i: int| 0 <= i < trace.len() implies #[trigger] self.good_event(runtime, m0, var_name.view(), sel@, i, trace[i]) by {
                if i < old_trace.len() { assert(trace[i] == old_trace[i]); }
            }
        }
        assert(writer.log@ =~= old(writer).log@ + trace);
    }
//@ ghost after <<.value_with(|| name.to_string().into())?;>>
    proof { assert(self.partial_ok(runtime, partial.rid())); }
//@ closure 0 arg_of=trace_with params=
|| -> (k: KString)
//@ closure 1 arg_of=ok_or_else params=
|| -> (e: Error)
//@ closure 2 arg_of=or_else params=_
|_e: Error| -> (r2: Result<Box<dyn Renderable>>)
    ensures r2 matches Ok(p) ==> (exists|q: Seq<char>| partial_named(store_of(runtime.ident()), q) == Some(p.rid()))
//@ closure 3 arg_of=trace_with params=
|| -> (k: KString)
//@ closure 4 arg_of=trace_with params=
|| -> (k: KString)
//@ closure 5 arg_of=value_with params=
|| -> (k: KString) requires i < isize::MAX as usize
//@ closure 6 arg_of=ok_or_else params=
|| -> (e: Error)
//@ closure 7 arg_of=or_else params=_
|_e: Error| -> (r2: Result<Box<dyn Renderable>>)
    ensures r2 matches Ok(p) ==> (exists|q: Seq<char>| partial_named(store_of(runtime.ident()), q) == Some(p.rid()))
//@ closure 8 arg_of=trace_with params=
|| -> (k: KString)
//@ closure 9 arg_of=trace_with params=
|| -> (k: KString)
//@ closure 10 arg_of=context_key_with params=
|| -> (k: KString)
//@ closure 11 arg_of=value_with params=
|| -> (k: KString)
//@ end
}

} // verus!
fn main() {}

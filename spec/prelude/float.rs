// ---- f64: IEEE operations never trap (vstd's *_req preconditions are unprovable otherwise); trusted ----
pub broadcast axiom fn axiom_f64_add_req(a: f64, b: f64) ensures #[trigger] a.add_req(b);
pub broadcast axiom fn axiom_f64_sub_req(a: f64, b: f64) ensures #[trigger] a.sub_req(b);
pub broadcast axiom fn axiom_f64_mul_req(a: f64, b: f64) ensures #[trigger] a.mul_req(b);
pub broadcast axiom fn axiom_f64_div_req(a: f64, b: f64) ensures #[trigger] a.div_req(b);
pub broadcast axiom fn axiom_f64_rem_req(a: f64, b: f64) ensures #[trigger] a.rem_req(b);
pub broadcast group group_f64_total { axiom_f64_add_req, axiom_f64_sub_req, axiom_f64_mul_req, axiom_f64_div_req, axiom_f64_rem_req }
pub uninterp spec fn f64_abs(a: f64) -> f64;
pub uninterp spec fn f64_max(a: f64, b: f64) -> f64;
pub uninterp spec fn f64_min(a: f64, b: f64) -> f64;
pub assume_specification [f64::abs] (a: f64) -> (r: f64) ensures r == f64_abs(a);
pub assume_specification [f64::max] (a: f64, b: f64) -> (r: f64) ensures r == f64_max(a, b);
pub assume_specification [f64::min] (a: f64, b: f64) -> (r: f64) ensures r == f64_min(a, b);
// rounding intrinsics and the saturating float->int `as` cast (trusted, uninterpreted: direction/ties are NOT proved,
// only that the filter applies exactly this intrinsic followed by exactly this cast)
pub uninterp spec fn f64_floor(a: f64) -> f64;
pub uninterp spec fn f64_ceil(a: f64) -> f64;
pub uninterp spec fn f64_round(a: f64) -> f64;
pub uninterp spec fn f64_powi(a: f64, n: i32) -> f64;
pub uninterp spec fn f64_to_i64(a: f64) -> i64;
pub assume_specification [f64::floor] (a: f64) -> (r: f64) ensures r == f64_floor(a);
pub assume_specification [f64::ceil] (a: f64) -> (r: f64) ensures r == f64_ceil(a);
pub assume_specification [f64::round] (a: f64) -> (r: f64) ensures r == f64_round(a);
pub assume_specification [f64::powi] (a: f64, n: i32) -> (r: f64) ensures r == f64_powi(a, n);
/// stand-in for `x as i64` on a float (Verus leaves the float->int cast unspecified); spliced in by an extraction edit
pub trait SatCast { fn sat_i64(self) -> i64; }
impl SatCast for f64 {
    #[verifier::external_body]
    fn sat_i64(self) -> (r: i64) ensures r == f64_to_i64(self) { self as i64 }
}

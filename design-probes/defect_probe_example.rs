fn main() {
    let arg = std::env::args().nth(1).unwrap();
    let parser = liquid::ParserBuilder::with_stdlib().build().unwrap();
    let t = parser.parse(&arg);
    match t {
        Err(e) => println!("PARSE-ERR: {}", e.to_string().replace('\n', " | ")),
        Ok(t) => {
            let g = liquid::object!({"a": [1,2,3,4,5]});
            match t.render(&g) {
                Ok(s) => println!("OK: {:?}", s),
                Err(e) => println!("RENDER-ERR: {}", e.to_string().replace('\n', " | ")),
            }
        }
    }
}

//@ unit paths
//@ serves C07 C02
//@ include prelude/header.rs
verus! {
//@ include prelude/std.rs
//@ include prelude/error.rs

// ---------------- assumed environment of runtime/variable.rs and runtime/expression.rs (stand-ins; trusted) ----------------
impl Error {
    #[verifier::external_body]
    pub fn with_msg<S>(msg: S) -> Error { unimplemented!() }
}
pub type Key = Seq<char>;
#[verifier::external_body]
pub struct VId { _p: u8 }
/// the scalar a value is, as a path key (None: the value is not a scalar)
pub uninterp spec fn vid_scalar(v: VId) -> Option<Key>;
#[verifier::external_body]
pub struct ScalarCow { _p: u8 }
impl ScalarCow { pub uninterp spec fn key(&self) -> Key; }
#[verifier::external_body]
pub struct Scalar { _p: u8 }
impl Scalar {
    pub uninterp spec fn key(&self) -> Key;
    #[verifier::external_body]
    pub fn as_ref(&self) -> (r: ScalarCow) ensures r.key() == self.key() { unimplemented!() }
}
#[verifier::external_body]
pub struct Value { _p: u8 }
impl Value {
    pub uninterp spec fn vid(&self) -> VId;
    #[verifier::external_body]
    pub fn into_scalar(self) -> (r: Option<ScalarCow>)
        ensures r matches Some(s) ==> vid_scalar(self.vid()) == Some(s.key()), r is None ==> vid_scalar(self.vid()) is None { unimplemented!() }
    #[verifier::external_body]
    pub fn source(&self) -> String { unimplemented!() }
}
pub trait ValueView {
    spec fn vid_of(&self) -> VId;
    fn as_scalar(&self) -> (r: Option<ScalarCow>)
        ensures r matches Some(s) ==> vid_scalar(self.vid_of()) == Some(s.key()), r is None ==> vid_scalar(self.vid_of()) is None;
}
impl ValueView for Value {
    open spec fn vid_of(&self) -> VId { self.vid() }
    #[verifier::external_body]
    fn as_scalar(&self) -> (r: Option<ScalarCow>) { unimplemented!() }
}
pub enum ValueCow<'a> { Owned(Value), Borrowed(&'a dyn ValueView) }
impl<'a> ValueCow<'a> {
    pub open spec fn vid(&self) -> VId { match self { ValueCow::Owned(v) => v.vid(), ValueCow::Borrowed(v) => v.vid_of() } }
    #[verifier::external_body]
    pub fn source(&self) -> String { unimplemented!() }
}
/// a variable path under construction (stand-in for model::Path): the sequence of its keys
pub struct Path { pub keys: Ghost<Seq<Key>> }
impl Path {
    #[verifier::external_body]
    pub fn with_index(value: ScalarCow) -> (r: Path) ensures r.keys@ == seq![value.key()] { unimplemented!() }
    #[verifier::external_body]
    pub fn reserve(&mut self, additional: usize) ensures final(self).keys@ == old(self).keys@ { unimplemented!() }
    #[verifier::external_body]
    pub fn push(&mut self, value: ScalarCow) ensures final(self).keys@ == old(self).keys@.push(value.key()) { unimplemented!() }
}
pub trait Runtime {
    spec fn lookup(&self, path: Seq<Key>) -> Option<VId>;
    /// the contract every layer is proved against in unit `stack` (there over &[ScalarCow])
    fn try_get(&self, path: &Path) -> (r: Option<ValueCow<'_>>)
        ensures r matches Some(v) ==> self.lookup(path.keys@) == Some(v.vid()), r is None ==> self.lookup(path.keys@) is None;
    fn get(&self, path: &Path) -> (r: Result<ValueCow<'_>>)
        ensures r matches Ok(v) ==> self.lookup(path.keys@) == Some(v.vid()), r is Err ==> self.lookup(path.keys@) is None;
}
}
macro_rules! format { ($($arg:tt)*) => { opaque_string() }; }
verus! {

// ================= Variable, against the ASSUMED contract of the index expressions =================
pub mod var_side { use super::*;
    /// an index expression as Variable sees it; its contract is the one proved for the real Expression below
    #[verifier::external_body]
    pub struct Expression { _p: u8 }
    impl Expression {
        pub uninterp spec fn denotes(&self, rt: &dyn Runtime) -> Option<VId>;
        #[verifier::external_body]
        pub fn evaluate(&self, runtime: &dyn Runtime) -> (r: Result<ValueCow<'_>>)
            ensures r matches Ok(v) ==> self.denotes(runtime) == Some(v.vid()), r is Err ==> self.denotes(runtime) is None { unimplemented!() }
        #[verifier::external_body]
        pub fn try_evaluate(&self, runtime: &dyn Runtime) -> (r: Option<ValueCow<'_>>)
            ensures r matches Some(v) ==> self.denotes(runtime) == Some(v.vid()), r is None ==> self.denotes(runtime) is None { unimplemented!() }
    }
//@ item crates/core/src/runtime/variable.rs :: struct Variable
//@ kind struct
//@ end
    /// "a variable path is resolved step by step": the variable's name followed by the scalar each index expression denotes;
    /// None if an index does not exist or is not a scalar
    pub closed spec fn path_upto(v: &Variable, rt: &dyn Runtime, k: int) -> Option<Seq<Key>>
        decreases k
    {
        if k <= 0 { Some(seq![v.variable.key()]) }
        else { match path_upto(v, rt, k - 1) {
            None => None,
            Some(p) => match v.indexes@[k - 1].denotes(rt) {
                None => None,
                Some(x) => match vid_scalar(x) { Some(s) => Some(p.push(s)), None => None },
            },
        } }
    }
    /// once a step fails, the whole path fails
    pub proof fn lemma_none_propagates(v: &Variable, rt: &dyn Runtime, k: int, n: int)
        requires 0 <= k <= n, path_upto(v, rt, k) is None,
        ensures path_upto(v, rt, n) is None,
        decreases n - k,
    {
        if k < n { lemma_none_propagates(v, rt, k, n - 1); }
    }
    impl Variable {
        pub closed spec fn path_spec(&self, rt: &dyn Runtime) -> Option<Seq<Key>> { path_upto(self, rt, self.indexes@.len() as int) }
//@ item crates/core/src/runtime/variable.rs :: impl Variable::try_evaluate
//@ props C07 C02
//@ safety C02 C07
//@ sig pub fn try_evaluate(&self, runtime: &dyn Runtime) -> (r: Option<Path>)
//@ spec
    ensures
        r matches Some(p) ==> self.path_spec(runtime) == Some(p.keys@),          // [C07:path_is_name_then_evaluated_indices]
        r is None ==> self.path_spec(runtime) is None,
//@ editre <<for (\w+) in &self\.indexes>> => <<for \1 in it: &self.indexes>> why: names Verus' ghost iterator so that the invariant can refer to the position
//@ loop 0 kind=for
    invariant
        0 <= it.index@ <= self.indexes@.len(),
        path_upto(self, runtime, it.index@) == Some(path.keys@),     // [C07:path_is_name_then_evaluated_indices]
//@ ghost before <<let v = expr.try_evaluate(runtime)?;>>
    proof { if path_upto(self, runtime, it.index@ + 1) is None { lemma_none_propagates(self, runtime, it.index@ + 1, self.indexes@.len() as int); } }
//@ end
//@ item crates/core/src/runtime/variable.rs :: impl Variable::evaluate
//@ props C07 C02
//@ sig pub fn evaluate(&self, runtime: &dyn Runtime) -> (r: Result<Path>)
//@ spec
    ensures
        r matches Ok(p) ==> self.path_spec(runtime) == Some(p.keys@),            // [C07:failing_path_form_agrees_with_optional_form]
        r is Err ==> self.path_spec(runtime) is None,                            // [C07:path_fails_only_if_an_index_is_missing_or_not_scalar]
//@ editre <<for (\w+) in &self\.indexes>> => <<for \1 in it: &self.indexes>> why: names Verus' ghost iterator so that the invariant can refer to the position
//@ loop 0 kind=for
    invariant
        0 <= it.index@ <= self.indexes@.len(),
        path_upto(self, runtime, it.index@) == Some(path.keys@),     // [C07:path_is_name_then_evaluated_indices]
//@ ghost before <<let v = expr.evaluate(runtime)?;>>
    proof { if path_upto(self, runtime, it.index@ + 1) is None { lemma_none_propagates(self, runtime, it.index@ + 1, self.indexes@.len() as int); } }
//@ closure 0 arg_of=ok_or_else params=
|| -> (e: Error) requires expr.denotes(runtime) is Some
//@ end
    }
}

// ================= Expression, against the contract of Variable proved above =================
pub mod expr_side { use super::*;
    #[verifier::external_body]
    pub struct Variable { _p: u8 }
    impl Variable {
        pub uninterp spec fn path_spec(&self, rt: &dyn Runtime) -> Option<Seq<Key>>;
        #[verifier::external_body]
        pub fn try_evaluate(&self, runtime: &dyn Runtime) -> (r: Option<Path>)
            ensures r matches Some(p) ==> self.path_spec(runtime) == Some(p.keys@), r is None ==> self.path_spec(runtime) is None { unimplemented!() }
        #[verifier::external_body]
        pub fn evaluate(&self, runtime: &dyn Runtime) -> (r: Result<Path>)
            ensures r matches Ok(p) ==> self.path_spec(runtime) == Some(p.keys@), r is Err ==> self.path_spec(runtime) is None { unimplemented!() }
    }
//@ item crates/core/src/runtime/expression.rs :: enum Expression
//@ kind enum
//@ end
    impl Expression {
        /// what an expression denotes: a literal denotes itself; a variable denotes what its path resolves to in the runtime
        pub closed spec fn denotes(&self, rt: &dyn Runtime) -> Option<VId> {
            match self {
                Expression::Literal(x) => Some(x.vid()),
                Expression::Variable(x) => match x.path_spec(rt) { None => None, Some(p) => rt.lookup(p) },
            }
        }
//@ item crates/core/src/runtime/expression.rs :: impl Expression::try_evaluate
//@ props C07 C02
//@ sig pub fn try_evaluate<'c>(&'c self, runtime: &'c dyn Runtime) -> (r: Option<ValueCow<'c>>)
//@ spec
    ensures
        r matches Some(v) ==> self.denotes(runtime) == Some(v.vid()),            // [C07:expression_denotes_literal_or_resolved_path]
        r is None ==> self.denotes(runtime) is None,
//@ end
//@ item crates/core/src/runtime/expression.rs :: impl Expression::evaluate
//@ props C07 C02
//@ sig pub fn evaluate<'c>(&'c self, runtime: &'c dyn Runtime) -> (r: Result<ValueCow<'c>>)
//@ spec
    ensures
        r matches Ok(v) ==> self.denotes(runtime) == Some(v.vid()),              // [C07:failing_and_optional_evaluation_agree]
        r is Err ==> self.denotes(runtime) is None,                              // [C07:evaluation_fails_exactly_when_a_step_does_not_exist]
//@ end
    }
}

} // verus!
fn main() {}

#!/bin/sh
# run_refactors.sh <dir-with-*.diff> : apply each semantics-preserving refactoring to /repo, run the quick checks of every
# property whose units extract from the touched files, undo. A VIOLATION here is a FALSE ALARM (exit 0 or 2 is fine).
D="$(cd "$(dirname "$0")/.." && pwd)"
cd /repo && [ -z "$(git status --porcelain --untracked-files=no)" ] || { echo "/repo is dirty"; exit 9; }
rm -rf "$D/work/evidence.keep" && cp -r "$D/evidence" "$D/work/evidence.keep"
trap 'rm -rf "$D/evidence" && mv "$D/work/evidence.keep" "$D/evidence"; git -C /repo checkout -- .' EXIT
for df in "$1"/*.diff; do
  name="$(basename "$df" .diff)"
  git -C /repo apply "$df" || { echo "== $name: patch does not apply"; continue; }
  files="$(git -C /repo diff --name-only)"
  props=""
  for f in $files; do
    for u in $(grep -l "//@ item $f " "$D"/spec/units/*.rs 2>/dev/null); do
      props="$props $(sed -n 's|^//@ serves ||p' "$u")"
    done
  done
  props="$(echo $props | tr ' ' '\n' | sort -u | grep -v '^C02$' | tr '\n' ' ')"
  [ -n "$props" ] || props="C02"
  echo "== $name: files=$(echo $files | tr '\n' ' ') props=$props"
  for p in $props; do
    out="$(cd "$D" && VERIF_TWIN_TIMEOUT=200 ./check "$p" --tier quick 2>&1)"; rc=$?
    echo "   $p rc=$rc $(echo "$out" | grep -E "^(VIOLATION|UNDECIDED)" | head -2 | cut -c1-230 | tr '\n' ' ')"
  done
  git -C /repo checkout -- .
done

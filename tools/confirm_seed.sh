#!/bin/sh
# confirm_seed.sh <worktree> <seed-dir> : confirm a seeded change in a scratch worktree
#   1. patch applies; 2. full suite passes with it; 3. demo fails with it; 4. demo passes without it
WT="$1"; SD="$2"; OUT="$SD/confirm.log"
export CARGO_TARGET_DIR="$WT/target" CARGO_NET_OFFLINE=true
cd "$WT" || exit 9
git checkout -q -- . ; rm -f tests/seed_demo.rs
: > "$OUT"
cp "$SD/demo.rs" tests/seed_demo.rs
cargo test --offline --test seed_demo > /tmp/seed_demo_clean.log 2>&1; echo "demo_on_clean_tree rc=$?" >> "$OUT"
git apply "$SD/patch.diff" || { echo "patch_does_not_apply" >> "$OUT"; exit 1; }
cargo test --offline --test seed_demo > /tmp/seed_demo_patched.log 2>&1; echo "demo_with_change rc=$?" >> "$OUT"
grep -E "^test result|^test .* FAILED" /tmp/seed_demo_patched.log | head -8 >> "$OUT"
rm -f tests/seed_demo.rs
cargo test --workspace --no-fail-fast --offline > /tmp/seed_suite.log 2>&1; echo "suite_with_change rc=$?" >> "$OUT"
grep -E "^test result" /tmp/seed_suite.log | awk '{p+=$4; f+=$6} END{print "suite passed="p" failed="f}' >> "$OUT"
git checkout -q -- . 
cat "$OUT"

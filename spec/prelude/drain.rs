// ---- Vec::drain(range) dropped at once, and <[T]>::reverse (trusted) ----
#[verifier::external_type_specification]
#[verifier::external_body]
#[verifier::reject_recursive_types(T)]
#[verifier::reject_recursive_types(A)]
pub struct ExDrain<'a, T: 'a, A: Allocator>(std::vec::Drain<'a, T, A>);

/// what `v.drain(r)` (dropped at once) leaves in `v`
pub uninterp spec fn drain_rest<T, R>(s: Seq<T>, r: R) -> Seq<T>;
pub uninterp spec fn drain_ok<R>(len: nat, r: R) -> bool;

pub broadcast axiom fn axiom_drain_range<T>(s: Seq<T>, r: core::ops::Range<usize>)
    ensures
        #[trigger] drain_rest::<T, core::ops::Range<usize>>(s, r) == s.subrange(0, r.start as int) + s.subrange(r.end as int, s.len() as int),
;
pub broadcast axiom fn axiom_drain_ok(len: nat, r: core::ops::Range<usize>)
    ensures
        #[trigger] drain_ok::<core::ops::Range<usize>>(len, r) == (r.start <= r.end && r.end <= len),
;
pub assume_specification<T, A: Allocator, R: RangeBounds<usize>> [std::vec::Vec::<T, A>::drain] (v: &mut std::vec::Vec<T, A>, r: R) -> (d: std::vec::Drain<'_, T, A>)
    requires drain_ok::<R>(old(v)@.len(), r),
    ensures final(v)@ == drain_rest::<T, R>(old(v)@, r),
;
pub assume_specification<T> [<[T]>::reverse] (s: &mut [T])
    ensures final(s)@ == old(s)@.reverse(),
;

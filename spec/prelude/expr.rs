// ---------------- assumed environment: expressions, owned/borrowed values, comparison wrapper (stand-ins; trusted) ----------------
pub mod liquid_core { pub use crate::ValueCow; pub mod model {
    #[derive(Clone, Copy)]
    pub enum State { Truthy, DefaultValue, Empty, Blank }
    pub use crate::KString;
} }
pub use liquid_core::model::State;

/// the value model's equality / ordering / truthiness / nil-ness on value identities (scalar layer: unit `scalar`, C11)
pub uninterp spec fn veq(a: VId, b: VId) -> bool;
pub uninterp spec fn vcmp(a: VId, b: VId) -> Option<core::cmp::Ordering>;
pub uninterp spec fn truthy(a: VId) -> bool;
/// the integer a value denotes, if it is an integer (or a string spelling one)
pub uninterp spec fn vid_int(v: VId) -> Option<i64>;
/// Liquid truth: nil is not truthy (`false` is the other falsy value; stated by the scalar/Value query_state tables)
pub broadcast axiom fn axiom_nil_not_truthy() ensures !#[trigger] truthy(nil_vid());

#[verifier::external_body]
pub struct ValueCow { _p: u8 }
impl ValueCow {
    pub uninterp spec fn vid(&self) -> VId;
    #[verifier::external_body]
    pub fn as_view(&self) -> (r: &dyn ValueView) ensures r.vid_of() == self.vid() { unimplemented!() }
    pub uninterp spec fn scalar_of(&self) -> Option<ScalarCow>;
    #[verifier::external_body]
    pub fn as_scalar(&self) -> (r: Option<ScalarCow>)
        ensures r == self.scalar_of(),
                (match r { Some(s) => s.int_view(), None => None }) == vid_int(self.vid())
    { unimplemented!() }
    #[verifier::external_body]
    pub fn into_owned(self) -> (r: Value) ensures r.vid() == self.vid() { unimplemented!() }
    #[verifier::external_body]
    pub fn to_value(&self) -> (r: Value) ensures r.vid() == self.vid() { unimplemented!() }
    #[verifier::external_body]
    pub fn query_state(&self, state: State) -> (r: bool) ensures state is Truthy ==> r == truthy(self.vid()) { unimplemented!() }
}
impl Default for ValueCow {
    #[verifier::external_body]
    fn default() -> (r: ValueCow) ensures r.vid() == nil_vid() { unimplemented!() }
}
#[verifier::external_body]
pub struct Expression { _p: u8 }
impl Expression {
    /// what the expression denotes in `rt` (None: a path step does not exist)
    pub uninterp spec fn denotes(&self, rt: &dyn Runtime) -> Option<VId>;
    #[verifier::external_body]
    pub fn evaluate(&self, runtime: &dyn Runtime) -> (r: Result<ValueCow>)
        ensures r matches Ok(v) ==> self.denotes(runtime) == Some(v.vid()),
                r is Err ==> self.denotes(runtime) is None
    { unimplemented!() }
    #[verifier::external_body]
    pub fn try_evaluate(&self, runtime: &dyn Runtime) -> (r: Option<ValueCow>)
        ensures r matches Some(v) ==> self.denotes(runtime) == Some(v.vid()),
                r is None ==> self.denotes(runtime) is None
    { unimplemented!() }
}

impl Expression {
    #[verifier::external_body]
    pub fn to_string(&self) -> String { unimplemented!() }
}
#[derive(Clone, Copy)]
pub struct ValueViewCmp { pub id: Ghost<VId> }
impl ValueViewCmp {
    #[verifier::external_body]
    pub fn new(v: &dyn ValueView) -> (r: ValueViewCmp) ensures r.id@ == v.vid_of() { unimplemented!() }
}
impl PartialEq for ValueViewCmp {
    #[verifier::external_body]
    fn eq(&self, other: &Self) -> (r: bool) ensures r == veq(self.id@, other.id@) { unimplemented!() }
}
impl PartialOrd for ValueViewCmp {
    #[verifier::external_body]
    fn partial_cmp(&self, other: &Self) -> (r: Option<core::cmp::Ordering>) ensures r == vcmp(self.id@, other.id@) { unimplemented!() }
}
impl PartialEq<ValueViewCmp> for ValueCow {
    #[verifier::external_body]
    fn eq(&self, other: &ValueViewCmp) -> (r: bool) ensures r == veq(self.vid(), other.id@) { unimplemented!() }
}

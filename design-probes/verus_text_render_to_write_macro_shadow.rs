use vstd::prelude::*;
verus! {

// ---------------- prelude ----------------
#[verifier::external_body]
pub struct Error { _p: u8 }
pub type Result<T> = core::result::Result<T, Error>;
#[verifier::external_body]
pub struct IoError { _p: u8 }

pub struct Sink { pub log: Ghost<Seq<int>>, pub failed: Ghost<bool> }

/// one `write!` = one abstract chunk, or a failure
#[verifier::external_body]
pub fn sink_write(w: &mut Sink) -> (r: core::result::Result<(), IoError>)
    requires !old(w).failed@,
    ensures
        r.is_ok() ==> !final(w).failed@ && final(w).log@ == old(w).log@.push(0),
        r.is_err() ==> final(w).failed@ && final(w).log@ == old(w).log@,
{ unimplemented!() }

pub trait ResultLiquidReplaceExt<T> {
    fn replace(self, msg: &'static str) -> (r: Result<T>);
}
impl<T> ResultLiquidReplaceExt<T> for core::result::Result<T, IoError> {
    #[verifier::external_body]
    fn replace(self, msg: &'static str) -> (r: Result<T>)
        ensures r.is_ok() == self.is_ok(), (r matches Ok(v) ==> self matches Ok(w) && v == w),
    { unimplemented!() }
}

pub trait Runtime { }

} // verus!

macro_rules! write {
    ($w:expr, $($arg:tt)*) => { sink_write($w) };
}

verus! {
pub struct Text { text: String }

// ---------------- extracted: impl Renderable for Text :: render_to ----------------
impl Text {
    fn render_to(&self, writer: &mut Sink, _runtime: &dyn Runtime) -> (r: Result<()>)
        requires !old(writer).failed@,
        ensures
            final(writer).failed@ ==> r.is_err(),
            r.is_ok() ==> final(writer).log@ == old(writer).log@.push(0),
            old(writer).log@.is_prefix_of(final(writer).log@),
    {
        write!(writer, "{}", self.text).replace("Failed to render")?;
        Ok(())
    }
}
} // verus!
fn main() {}

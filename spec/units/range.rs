//@ unit range
//@ serves C05 C02
//@ include prelude/header.rs
verus! {
//@ include prelude/std.rs
//@ include prelude/error.rs
//@ include prelude/runtime.rs
//@ include prelude/value.rs
//@ include prelude/render.rs
//@ include prelude/expr.rs

// ---------------- assumed environment (stand-ins; trusted) ----------------
#[verifier::external_body]
fn unexpected_value_error<S>(expected: &str, actual: Option<S>) -> Error { unimplemented!() }
impl ValueCow {
    #[verifier::external_body]
    pub fn type_name(&self) -> &'static str { unimplemented!() }
    #[verifier::external_body]
    pub fn to_kstr(&self) -> KStringCow { unimplemented!() }
}
pub trait StrToOwned { fn to_owned(&self) -> String; }
/// the identity of a freshly built integer value (Value::scalar on an i64)
pub uninterp spec fn int_vid(n: int) -> VId;
pub broadcast axiom fn axiom_int_value(v: Value)
    ensures (#[trigger] v.num()) matches Some(Num::Int(n)) ==> v.vid() == int_vid(n as int);
impl From<Value> for ValueCow {
    #[verifier::external_body]
    fn from(v: Value) -> (r: ValueCow) ensures r.vid() == v.vid() { unimplemented!() }
}
/// arrays by values(), objects as [key, value] pairs, nil / empty / blank as nothing, anything else an error:
/// body is `get_array` (iterator chains over dyn views, out of reach)
pub uninterp spec fn collection_of(v: VId) -> Option<Seq<VId>>;
#[verifier::external_body]
fn get_array(array: &dyn ValueView) -> (r: Result<Vec<ValueCow>>)
    ensures r matches Ok(a) ==> collection_of(array.vid_of()) == Some(a@.map_values(|c: ValueCow| c.vid())),
            r is Err ==> collection_of(array.vid_of()) is None
{ unimplemented!() }

// ---------------- the collection expression of a loop ----------------
//@ item crates/lib/src/stdlib/blocks/for_block.rs :: enum RangeExpression
//@ kind enum
//@ vis pub
//@ end
//@ item crates/lib/src/stdlib/blocks/for_block.rs :: enum Range
//@ kind enum
//@ vis pub
//@ editre <<<'\w+>>> => <<>> why: the stand-in ValueCow has no lifetime parameter
//@ end

/// the integer an argument expression denotes (None: it does not exist or is not a whole number)
pub open spec fn int_arg_spec(arg: &Expression, rt: &dyn Runtime) -> Option<i64> {
    match arg.denotes(rt) { Some(v) => vid_int(v), None => None }
}
//@ item crates/lib/src/stdlib/blocks/for_block.rs :: fn int_argument
//@ props C05 C02
//@ sig fn int_argument(arg: &Expression, runtime: &dyn Runtime, arg_name: &str) -> (r: Result<isize>)
//@ spec
    ensures
        r matches Ok(i) ==> int_arg_spec(arg, runtime) == Some(i as i64),        // [C05:range_bound_is_the_integer_the_expression_denotes]
        r is Err ==> int_arg_spec(arg, runtime) is None,                          // [C05:range_bound_that_is_no_integer_is_an_error]
//@ closure 0 arg_of=and_then params=v
|v: ScalarCow| -> (o: Option<i64>) ensures o == v.int_view()
//@ closure 1 arg_of=ok_or_else params=
|| -> (e: Error)
//@ closure 2 arg_of=context_key_with params=
|| -> (k: KString)
//@ closure 3 arg_of=value_with params=
|| -> (k: KString)
//@ end

impl RangeExpression {
//@ item crates/lib/src/stdlib/blocks/for_block.rs :: impl RangeExpression::evaluate
//@ props C05 C02
//@ sig pub fn evaluate(&self, runtime: &dyn Runtime) -> (r: Result<Range>)
//@ spec
    ensures
        match *self {
            // (a..b): both bounds are the integers the two expressions denote, start first; a bound that is no integer fails
            RangeExpression::Counted(s, e) =>
                (r matches Ok(x) ==> (x matches Range::Counted(a, b) && int_arg_spec(&s, runtime) == Some(a) && int_arg_spec(&e, runtime) == Some(b)))    // [C05:integer_range_bounds_in_order]
                && (r is Err ==> (int_arg_spec(&s, runtime) is None || int_arg_spec(&e, runtime) is None)),
            // a collection expression: the value it denotes; fails iff it denotes nothing
            RangeExpression::Array(e) =>
                (r matches Ok(x) ==> (x matches Range::Array(v) && e.denotes(runtime) == Some(v.vid())))                                                  // [C05:collection_is_the_value_the_expression_denotes]
                && (r is Err ==> e.denotes(runtime) is None),
        },
//@ end
}

impl Range {
//@ item crates/lib/src/stdlib/blocks/for_block.rs :: impl Range<'_>::evaluate
//@ props C05 C02
//@ sig pub fn evaluate(&self) -> (r: Result<Vec<ValueCow>>)
//@ spec
    ensures
        match *self {
            // an integer range is inclusive: start, start+1, .., stop - exactly stop-start+1 integers, in order; it never fails
            Range::Counted(a, b) => r is Ok && (a <= b ==> (r matches Ok(v) && v@.len() == b - a + 1
                && forall|i: int| 0 <= i < v@.len() ==> (#[trigger] v@[i]).vid() == int_vid(a + i))),               // [C05:integer_range_is_inclusive_and_in_order]
            Range::Array(x) =>
                (r matches Ok(v) ==> collection_of(x.vid()) == Some(v@.map_values(|c: ValueCow| c.vid())))
                && (r is Err ==> collection_of(x.vid()) is None),
        },
//@ closure 0 arg_of=map params=x
|x: i64| -> (c: ValueCow) ensures c.vid() == int_vid(x as int)
//@ prologue
    broadcast use axiom_int_value;
//@ end
}
} // verus!
fn main() {}

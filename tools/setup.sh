#!/bin/sh
# MANIFEST.setup_cmd: build the framework offline from files on disk.
set -e
D="$(cd "$(dirname "$0")/.." && pwd)"
export CARGO_NET_OFFLINE=true
mkdir -p "$D/work"
( cd "$D/tools/extract" && cargo build --release --offline 2>&1 | tail -2 )
( cd "$D/replay" && cp /repo/Cargo.lock . && CARGO_TARGET_DIR="$D/work/replay-target" cargo build --offline 2>&1 | tail -2 )
# compile the Kani harness crate once (later runs only recompile what changed in /repo)
( cd "$D/kani" && cp /repo/Cargo.lock . && CARGO_TARGET_DIR="$D/work/kani-target" cargo kani --output-format=terse --harness c12_scalar_views_agree 2>&1 | tail -2 )
# warm-up verus (first run is slower)
printf 'use vstd::prelude::*;\nverus!{ proof fn warm() ensures 1 + 1 == 2int {} }\nfn main(){}\n' > "$D/work/warm.rs"
( cd "$D/work" && verus warm.rs >/dev/null 2>&1 || true )
echo setup-done

#![feature(allocator_api)]
use vstd::prelude::*;
use vstd::std_specs::cmp::OrdSpec;
use std::alloc::Allocator;
use std::ops::RangeBounds;
verus! {

pub assume_specification<T: Ord> [std::cmp::min] (a: T, b: T) -> (r: T)
    ensures
        T::obeys_cmp_spec() ==> r == (if a.cmp_spec(&b) == core::cmp::Ordering::Greater { b } else { a }),
;

#[verifier::external_type_specification]
#[verifier::external_body]
#[verifier::reject_recursive_types(T)]
#[verifier::reject_recursive_types(A)]
pub struct ExDrain<'a, T: 'a, A: Allocator>(std::vec::Drain<'a, T, A>);

/// what `v.drain(r)` (dropped at once) leaves in `v`
pub uninterp spec fn drain_rest<T, R>(s: Seq<T>, r: R) -> Seq<T>;
pub uninterp spec fn drain_ok<R>(len: nat, r: R) -> bool;

pub broadcast axiom fn axiom_drain_range<T>(s: Seq<T>, r: core::ops::Range<usize>)
    ensures
        #[trigger] drain_rest::<T, core::ops::Range<usize>>(s, r) == s.subrange(0, r.start as int) + s.subrange(r.end as int, s.len() as int),
;
pub broadcast axiom fn axiom_drain_ok(len: nat, r: core::ops::Range<usize>)
    ensures
        #[trigger] drain_ok::<core::ops::Range<usize>>(len, r) == (r.start <= r.end && r.end <= len),
;

pub assume_specification<T, A: Allocator, R: RangeBounds<usize>> [std::vec::Vec::<T, A>::drain] (v: &mut std::vec::Vec<T, A>, r: R) -> (d: std::vec::Drain<'_, T, A>)
    requires drain_ok::<R>(old(v)@.len(), r),
    ensures final(v)@ == drain_rest::<T, R>(old(v)@, r),
;

pub assume_specification<T> [<[T]>::reverse] (s: &mut [T])
    ensures final(s)@ == old(s)@.reverse(),
;

fn iter_array(
    mut range: Vec<u64>,
    limit: Option<usize>,
    offset: usize,
    reversed: bool,
) -> (r: Vec<u64>)
    ensures
        ({
            let n = range@.len() as int;
            let off = if offset as int <= n { offset as int } else { n };
            let lim = match limit { Some(l) => if (l as int) < n - off { l as int } else { n - off }, None => n - off };
            let sel = range@.subrange(off, off + lim);
            r@ =~= sel
        }),
{
    broadcast use {axiom_drain_range, axiom_drain_ok};
    let offset = ::std::cmp::min(offset, range.len());
    let limit = limit
        .map(|l: usize| -> (m: usize) ensures m == (if l < range.len() - offset { l } else { (range.len() - offset) as usize }) { ::std::cmp::min(l, range.len() - offset) })
        .unwrap_or_else(|| -> (m: usize) ensures m == range.len() - offset { range.len() - offset });
    assert(offset <= range.len());
    range.drain(0..offset);
    range.truncate(limit);


    range
}

} // verus!
fn main() {}

#!/usr/bin/env python3
"""Driver for contract-based verification of /repo (liquid-rust) with Verus (+ Kani twins).

  check <Cxx> [--tier quick|thorough]   run the units that serve property Cxx
  unit <name> [--keep] [--show]         assemble + verify one unit, print diagnostics (dev aid)
  pin                                   (re)write spec/fingerprints.json from the current /repo
  replay <file>                         re-run a replay file against the real code
  mutants <unit>                        run the unit's registered mutants (dev aid; part of thorough)

Exit codes: 0 = every obligation discharged (or only KNOWN-FINDINGs), 1 = VIOLATION,
2 = UNDECIDED (lost anchor, unsupported construct, rlimit, tool failure) - never an alarm.
"""
import hashlib
import json
import os
import re
import subprocess
import sys
import time
from concurrent.futures import ThreadPoolExecutor

VERIF = os.path.dirname(os.path.dirname(os.path.abspath(__file__)))
REPO = os.environ.get("VERIF_REPO", "/repo")
SPEC = os.path.join(VERIF, "spec")
WORK = os.path.join(VERIF, "work")
EXTRACT_BIN = os.path.join(VERIF, "tools/extract/target/release/extract")
KNOWN = os.path.join(VERIF, "known-findings.txt")

VERIF_FAIL_PATTERNS = [
    r"postcondition not satisfied",
    r"precondition not satisfied",
    r"invariant not satisfied",
    r"assertion failed",
    r"possible arithmetic underflow/overflow",
    r"possible division by zero",
    r"possible bit shift underflow/overflow",
    r"decreases not satisfied",
    r"could not prove termination",
    r"loop invariant",
    r"index out of bounds",
    r"unreachable code may be reachable",
    r"cannot show .* is in bounds",
    r"value may be out of range",
    r"unable to prove post-condition of closure",
    r"precondition not met",
    r"may be out of bounds",
    r"failed to prove",
    r"unable to prove assertion",
    r"cannot prove",
]
UNDECIDED_PATTERNS = [r"rlimit", r"resource limit", r"timed? ?out", r"Z3.*(error|crash)"]


class Undecided(Exception):
    pass


# --------------------------------------------------------------------------- extraction

_extract_cache = {}


def ensure_extract_bin():
    if not os.path.exists(EXTRACT_BIN):
        raise Undecided("extractor not built: run MANIFEST.setup_cmd (tools/setup.sh)")


def extract_file(relpath):
    if relpath in _extract_cache:
        return _extract_cache[relpath]
    ensure_extract_bin()
    full = os.path.join(REPO, relpath)
    if not os.path.exists(full):
        raise Undecided(f"lost-anchor: file {relpath} does not exist")
    p = subprocess.run([EXTRACT_BIN, full], capture_output=True, text=True)
    try:
        d = json.loads(p.stdout)
    except Exception:
        raise Undecided(f"extractor failed on {relpath}: {p.stdout[:200]} {p.stderr[:200]}")
    if "error" in d:
        raise Undecided(f"extractor: {relpath}: {d['error']}")
    with open(full, "rb") as f:
        d["src"] = f.read()
    d["by_path"] = {}
    for it in d["items"]:
        d["by_path"].setdefault(it["path"], []).append(it)
    _extract_cache[relpath] = d
    return d


def extract_bytes(relpath, data, tag):
    """run the extractor on a modified copy of a source file (mutation self-test only)"""
    ensure_extract_bin()
    d0 = os.path.join(WORK, "mut", tag)
    os.makedirs(d0, exist_ok=True)
    fp = os.path.join(d0, os.path.basename(relpath))
    with open(fp, "wb") as f:
        f.write(data)
    p = subprocess.run([EXTRACT_BIN, fp], capture_output=True, text=True)
    try:
        d = json.loads(p.stdout)
    except Exception:
        raise Undecided(f"extractor failed on mutated {relpath}: {p.stdout[:200]}")
    if "error" in d:
        raise Undecided(f"mutant does not parse: {d['error']}")
    d["src"] = data
    d["by_path"] = {}
    for it in d["items"]:
        d["by_path"].setdefault(it["path"], []).append(it)
    return d


# --------------------------------------------------------------------------- template parsing

TAG_RE = re.compile(r"//\s*\[([A-Za-z0-9_:,\- ]+)\]\s*$")


def parse_tags(line):
    idx = line.find("//")
    if idx < 0:
        return []
    groups = re.findall(r"\[([A-Za-z0-9_:,\- ]+)\]", line[idx:])
    out = []
    for t in ",".join(groups).split(","):
        t = t.strip()
        if not t:
            continue
        if ":" in t:
            p, n = t.split(":", 1)
        else:
            p, n = t, ""
        out.append((p.strip(), n.strip()))
    return out


class Item:
    def __init__(self, file, path, tpl, line):
        self.file, self.path, self.tpl, self.line = file, path, tpl, line
        self.kind = "fn"
        self.props, self.safety = [], ["C02"]
        self.vacuous = None
        self.sig, self.spec = [], []
        self.closures, self.loops, self.edits = {}, {}, []
        self.prologue = []
        self.ghosts = []
        self.vis = None
        self.nth = 0
        self.name = None  # optional short id

    @property
    def id(self):
        return self.name or f"{self.file}::{self.path}"


def parse_kv(tokens):
    kv = {}
    for t in tokens:
        if "=" in t:
            k, v = t.split("=", 1)
            kv[k] = v
    return kv


def read_template(unit):
    """-> (meta, parts) where parts is a list of ('text', line_no, text, file) | ('item', Item)"""
    path = os.path.join(SPEC, "units", unit + ".rs")
    if not os.path.exists(path):
        raise Undecided(f"no such unit {unit}")
    meta = {"unit": unit, "serves": [], "file": path}
    parts = []

    def include(fpath, depth=0):
        with open(fpath) as f:
            lines = f.read().split("\n")
        i = 0
        rel = os.path.relpath(fpath, VERIF)
        while i < len(lines):
            ln = lines[i]
            s = ln.strip()
            if s.startswith("//@"):
                toks = s[3:].split()
                if not toks:
                    i += 1
                    continue
                d = toks[0]
                if d == "unit":
                    pass
                elif d == "serves":
                    meta["serves"] += toks[1:]
                elif d == "rlimit":
                    meta["rlimit"] = float(toks[1])
                elif d == "include":
                    include(os.path.join(SPEC, toks[1]), depth + 1)
                elif d == "item":
                    rest = s[3:].strip()[len("item"):].strip()
                    file, ipath = [x.strip() for x in rest.split("::", 1)]
                    it = Item(file, ipath, rel, i + 1)
                    cur = None
                    i += 1
                    while i < len(lines):
                        l2 = lines[i]
                        s2 = l2.strip()
                        if s2.startswith("//@"):
                            t2 = s2[3:].split()
                            d2 = t2[0] if t2 else ""
                            if d2 == "end":
                                break
                            elif d2 == "kind":
                                it.kind = t2[1]
                            elif d2 == "name":
                                it.name = t2[1]
                            elif d2 == "vis":
                                it.vis = t2[1]
                            elif d2 == "nth":
                                it.nth = int(t2[1])
                            elif d2 == "props":
                                it.props = t2[1:]
                            elif d2 == "safety":
                                it.safety = t2[1:]
                            elif d2 == "unreachable-by-contract":
                                # the trait-level precondition is false for this impl (e.g. RuntimeCore::set_global, whose body is
                                # `unreachable!`): the function is proved never callable, so `ensures false` verifies by design
                                it.vacuous = " ".join(t2[1:]) or "precondition is unsatisfiable for this impl"
                            elif d2 == "sig":
                                cur = it.sig
                                r = s2[3:].strip()[3:].strip()
                                if r:
                                    cur.append((i + 1, r))
                            elif d2 == "spec":
                                cur = it.spec
                            elif d2 == "prologue":
                                cur = it.prologue
                            elif d2 == "ghost":
                                m = re.match(r"//@\s*ghost\s+(before|after)\s+(re)?<<(.*?)>>\s*$", s2)
                                if not m:
                                    raise Undecided(f"{rel}:{i+1}: bad ghost directive")
                                g = {"pos": m.group(1), "anchor": m.group(3), "lines": [], "line": i + 1, "re": bool(m.group(2))}
                                it.ghosts.append(g)
                                cur = g["lines"]
                            elif d2 == "closure":
                                k = int(t2[1])
                                kv = parse_kv(t2[2:])
                                it.closures[k] = {"kv": kv, "lines": []}
                                cur = it.closures[k]["lines"]
                            elif d2 == "loop":
                                k = int(t2[1])
                                kv = parse_kv(t2[2:])
                                it.loops[k] = {"kv": kv, "lines": []}
                                cur = it.loops[k]["lines"]
                            elif d2 in ("editre", "editreall"):
                                m = re.match(r"//@\s*editre(?:all)?\s+<<(.*?)>>\s*=>\s*<<(.*?)>>\s*(.*)$", s2)
                                if not m:
                                    raise Undecided(f"{rel}:{i+1}: bad editre directive")
                                it.edits.append({"from": m.group(1), "to": m.group(2), "why": m.group(3), "line": i + 1, "re": True, "all": d2 == "editreall"})
                            elif d2 in ("edit", "editall"):
                                # //@ edit <<from>> => <<to>> [why: ...]     (editall: every occurrence, at least one)
                                m = re.match(r"//@\s*edit(all)?\s+<<(.*?)>>\s*=>\s*<<(.*?)>>\s*(.*)$", s2)
                                if not m:
                                    raise Undecided(f"{rel}:{i+1}: bad edit directive")
                                it.edits.append({"from": m.group(2), "to": m.group(3), "why": m.group(4), "line": i + 1, "all": bool(m.group(1))})
                            else:
                                raise Undecided(f"{rel}:{i+1}: unknown item directive {d2}")
                        else:
                            if cur is not None:
                                cur.append((i + 1, l2))
                        i += 1
                    parts.append(("item", it))
                else:
                    raise Undecided(f"{rel}:{i+1}: unknown directive {d}")
            else:
                parts.append(("text", i + 1, ln, rel))
            i += 1

    include(path)
    return meta, parts


def list_units():
    d = os.path.join(SPEC, "units")
    return sorted(f[:-3] for f in os.listdir(d) if f.endswith(".rs"))


def units_serving(prop):
    out = []
    for u in list_units():
        with open(os.path.join(SPEC, "units", u + ".rs")) as f:
            head = f.read(4000)
        for ln in head.split("\n"):
            s = ln.strip()
            if s.startswith("//@ serves"):
                if prop in s.split()[2:]:
                    out.append(u)
    return out


# --------------------------------------------------------------------------- assembly

def strip_comment(line):
    # remove trailing // comment (templates never contain '//' inside string literals in spec lines)
    idx = line.find("//")
    return line if idx < 0 else line[:idx]


def load_fingerprints():
    p = os.path.join(SPEC, "fingerprints.json")
    if os.path.exists(p):
        with open(p) as f:
            return json.load(f)
    return {}


class Assembly:
    def __init__(self, unit):
        self.unit = unit
        self.segs = []  # (text, origin)
        self.items = []  # dict per item
        self.edits = []

    def add(self, text, origin):
        self.segs.append((text, origin))

    def text(self):
        return "".join(t for t, _ in self.segs)

    def index(self):
        self.offs = []
        o = 0
        for t, org in self.segs:
            b = len(t.encode())
            self.offs.append((o, o + b, org))
            o += b

    def origin_at(self, byte):
        for s, e, org in self.offs:
            if s <= byte < e:
                return org
        return None


def locate(it):
    ex = extract_file(it.file)
    cands = ex["by_path"].get(it.path, [])
    if len(cands) <= it.nth:
        raise Undecided(f"lost-anchor: item `{it.path}` (nth={it.nth}) not found in {it.file}")
    return ex, cands[it.nth]


def byte_line(src, off):
    return src.count(b"\n", 0, off) + 1


def assemble(unit, canary=False, mutant=None, check_fp=True):
    meta, parts = read_template(unit)
    fps = load_fingerprints().get(unit, {}) if check_fp else {}
    A = Assembly(unit)
    A.meta = meta
    for part in parts:
        if part[0] == "text":
            _, ln, text, rel = part
            A.add(text + "\n", {"kind": "tpl", "file": rel, "line": ln, "tags": parse_tags(text)})
            continue
        it = part[1]
        ex, x = locate(it)
        src = ex["src"]
        if mutant and mutant.get("item") == it.id and x["kind"] == "fn" and x["body"] is not None:
            # mutation self-test: apply the textual fault to a copy of the source file, then extract from the copy,
            # so that anchors are located in the mutated text exactly as they would be after a real edit of /repo
            mb0, mb1 = x["body"]["start"], x["body"]["end"]
            mbody = src[mb0:mb1]
            frm = mutant["find"].encode()
            cnt = mbody.count(frm)
            occ = mutant.get("occurrence")
            if occ is None:
                if cnt != 1:
                    raise Undecided(f"mutant anchor `{mutant['find']}` occurs {cnt} times in {it.path}")
                idx = mbody.index(frm)
            else:
                if cnt <= occ:
                    raise Undecided(f"mutant anchor `{mutant['find']}` occurs {cnt} times in {it.path}")
                idx = -1
                for _ in range(occ + 1):
                    idx = mbody.index(frm, idx + 1)
            msrc = src[:mb0 + idx] + mutant["replace"].encode() + src[mb0 + idx + len(frm):]
            ex = extract_bytes(it.file, msrc, f"{unit}_{mutant.get('n', 0)}")
            cands = ex["by_path"].get(it.path, [])
            if len(cands) <= it.nth:
                raise Undecided(f"mutant lost item {it.path}")
            x = cands[it.nth]
            src = msrc
        info = {"id": it.id, "file": it.file, "path": it.path, "kind": it.kind, "props": it.props, "safety": it.safety, "vacuous": it.vacuous,
                "tpl": it.tpl, "tpl_line": it.line, "repo_line": byte_line(src, x["start"])}
        if it.kind in ("struct", "enum"):
            if x["kind"] != it.kind:
                raise Undecided(f"lost-anchor: {it.path} is not a {it.kind}")
            text = src[x["kw_start"]:x["end"]].decode()
            text = re.sub(r"\bpub(\([a-z]+\))?\s+", "", text)
            text = re.sub(r"(?m)^\s*#\[[^\]]*\]\s*$", "", text)
            text = re.sub(r"(?m)^\s*///.*$", "", text)
            if it.vis == "pub":
                # all-public variant (needed when a trait impl's `open spec fn` mentions the fields)
                text = "pub " + re.sub(r"(?m)^(\s+)([a-z_][A-Za-z0-9_]*\s*:)", r"\1pub \2", text)
                if it.kind == "struct":
                    # single-field tuple struct: `struct S<..>(T);` -> `struct S<..>(pub T);`
                    text = re.sub(r"^(pub struct \w+(?:<[^>]*>)?\()(?!pub )", r"\1pub ", text, count=1)
            for e in it.edits:
                # edits of a copied type definition (e.g. dropping a lifetime parameter the stand-in types do not have)
                if e.get("re"):
                    text, cnt = re.subn(e["from"], e["to"], text)
                else:
                    cnt = text.count(e["from"])
                    text = text.replace(e["from"], e["to"])
                if cnt < 1:
                    raise Undecided(f"lost-anchor: {it.path}: edit anchor `{e['from']}` does not occur in the type definition")
                A.edits.append({"item": it.id, "from": e["from"], "to": e["to"], "why": e["why"], "occurrences": cnt})
            info["sha256"] = hashlib.sha256(src[x["kw_start"]:x["end"]]).hexdigest()
            A.add(text + "\n", {"kind": "typedef", "item": it.id, "file": it.file, "tags": []})
            A.items.append(info)
            continue
        if x["kind"] != "fn" or x["body"] is None:
            raise Undecided(f"lost-anchor: {it.path} has no body")
        # ---- fingerprint
        fp = fps.get(it.id)
        if fp is not None:
            if fp["sig_norm"] != x["sig_norm"]:
                raise Undecided(f"lost-anchor: signature of {it.path} changed: `{x['sig_norm']}` (pinned `{fp['sig_norm']}`)")
        elif check_fp and fps:
            raise Undecided(f"lost-anchor: no pinned fingerprint for {it.id}; run `check pin`")
        for k, c in it.closures.items():
            if k >= len(x["closures"]):
                raise Undecided(f"lost-anchor: {it.path}: closure #{k} not found")
            xc = x["closures"][k]
            kv = c["kv"]
            if "arg_of" in kv and kv["arg_of"] != (xc["arg_of"] or "-"):
                raise Undecided(f"lost-anchor: {it.path}: closure #{k} is an argument of `{xc['arg_of']}`, expected `{kv['arg_of']}`")
            if "params" in kv and kv["params"] != ";".join(xc["params"]):
                # renamed closure parameters are followed (positionally) when both lists are plain identifiers of equal length
                exp = [q for q in kv["params"].split(";") if q]
                act = list(xc["params"])
                ident = re.compile(r"^[A-Za-z_][A-Za-z0-9_]*$")
                if len(exp) == len(act) and all(ident.match(q) for q in exp + act):
                    c["rename"] = dict(zip(exp, act))
                else:
                    raise Undecided(f"lost-anchor: {it.path}: closure #{k} params `{';'.join(xc['params'])}`, expected `{kv['params']}`")
        for k, c in it.loops.items():
            if k >= len(x["loops"]):
                raise Undecided(f"lost-anchor: {it.path}: loop #{k} not found")
            if "kind" in c["kv"] and c["kv"]["kind"] != x["loops"][k]["kind"]:
                raise Undecided(f"lost-anchor: {it.path}: loop #{k} kind changed")
        if fp is not None:
            if len(x["closures"]) != fp["n_closures"] or len(x["loops"]) != fp["n_loops"]:
                raise Undecided(f"lost-anchor: {it.path}: closure/loop count changed "
                                f"({len(x['closures'])}/{len(x['loops'])}, pinned {fp['n_closures']}/{fp['n_loops']})")
        if x.get("unsafe"):
            raise Undecided(f"unsupported: {it.path} is unsafe")
        # ---- signature + spec
        org_base = {"item": it.id, "file": it.tpl}
        for ln, t in it.sig:
            A.add(t + "\n", dict(org_base, kind="sig", line=ln, tags=[]))
        spec_lines = list(it.spec)
        if canary is True or (canary and it.id in canary):
            joined = "\n".join(t for _, t in spec_lines)
            if re.search(r"\bensures\b", joined):
                done = False
                new = []
                for ln, t in spec_lines:
                    if not done and re.search(r"\bensures\b", strip_comment(t)):
                        t = re.sub(r"\bensures\b", "ensures false,", t, count=1)
                        done = True
                    new.append((ln, t))
                spec_lines = new
            else:
                # insert before a trailing `decreases` if any
                idx = None
                for j, (ln, t) in enumerate(spec_lines):
                    if re.search(r"^\s*decreases\b", t):
                        idx = j
                        break
                ins = (0, "    ensures false,")
                if idx is None:
                    spec_lines.append(ins)
                else:
                    spec_lines.insert(idx, ins)
        for ln, t in spec_lines:
            A.add(t + "\n", dict(org_base, kind="spec", line=ln, tags=parse_tags(t)))
        # ---- body with splices
        b0, b1 = x["body"]["start"], x["body"]["end"]
        body = src[b0:b1]
        info["sha256"] = hashlib.sha256(body).hexdigest()
        info["body_lines"] = [byte_line(src, b0), byte_line(src, b1)]
        reps = []  # (start, end, text, origin)
        for k, c in it.closures.items():
            xc = x["closures"][k]
            head = " ".join(strip_comment(t).strip() for _, t in c["lines"]).strip()
            if c.get("rename"):
                # inside the closure head the parameter names shadow everything else, so a whole-word rename is exact
                rn = c["rename"]
                # the head's own result binder `-> (name: T)` must not collide with a new parameter name
                mb = re.search(r"->\s*\(\s*([A-Za-z_][A-Za-z0-9_]*)\s*:", head)
                if mb and mb.group(1) in rn.values() and mb.group(1) not in rn:
                    head = re.sub(r"\b" + re.escape(mb.group(1)) + r"\b", "__res", head)
                head = re.sub(r"\b(" + "|".join(re.escape(q) for q in rn) + r")\b", lambda mm: rn[mm.group(1)], head)
            tags = [tg for _, t in c["lines"] for tg in parse_tags(t)]
            org = dict(org_base, kind="closure", k=k, line=c["lines"][0][0] if c["lines"] else it.line, tags=tags)
            if xc["body_is_block"]:
                reps.append((xc["head_start"], xc["body_start"], head + " ", org))
            else:
                reps.append((xc["head_start"], xc["body_start"], head + " { ", org))
                reps.append((xc["body_end"], xc["body_end"], " }", org))
        for k, c in it.loops.items():
            xl = x["loops"][k]
            inv = " ".join(strip_comment(t).strip() for _, t in c["lines"]).strip()
            tags = [tg for _, t in c["lines"] for tg in parse_tags(t)]
            org = dict(org_base, kind="loop", k=k, line=c["lines"][0][0] if c["lines"] else it.line, tags=tags)
            reps.append((xl["body_start"], xl["body_start"], " " + inv + " ", org))
        if it.prologue:
            ptxt = " ".join(strip_comment(t).strip() for _, t in it.prologue).strip()
            reps.append((b0 + 1, b0 + 1, " " + ptxt + " ", dict(org_base, kind="prologue", line=it.prologue[0][0], tags=[])))
        for g in it.ghosts:
            gt = " ".join(strip_comment(t).strip() for _, t in g["lines"]).strip()
            if not re.match(r"^(proof\s*\{|assert\b|broadcast use\b|let ghost\b)", gt):
                raise Undecided(f"{it.tpl}:{g['line']}: ghost insertion must be a proof block / assert / broadcast use / let ghost")
            if g.get("re"):
                ms = list(re.finditer(g["anchor"].encode(), body, re.S))
                if len(ms) != 1:
                    raise Undecided(f"lost-anchor: {it.path}: ghost anchor pattern `{g['anchor']}` matches {len(ms)} times")
                st = b0 + (ms[0].end() if g["pos"] == "after" else ms[0].start())
                # \1..\9 in the ghost text name what the anchor's groups matched (local names), so a rename keeps the proof
                gt = re.sub(r"\\([1-9])", lambda mm: (ms[0].group(int(mm.group(1))) or b"").decode(), gt)
            else:
                anc = g["anchor"].replace("\\n", "\n").encode()
                cnt = body.count(anc)
                if cnt != 1:
                    raise Undecided(f"lost-anchor: {it.path}: ghost anchor `{g['anchor']}` occurs {cnt} times")
                st = b0 + body.index(anc) + (len(anc) if g["pos"] == "after" else 0)
            reps.append((st, st, " " + gt + " ", dict(org_base, kind="ghost", line=g["line"], tags=[t for _, l in g["lines"] for t in parse_tags(l)])))
        all_edits = list(it.edits)
        for e in all_edits:
            if e.get("re"):
                ms = list(re.finditer(e["from"].encode(), body, re.S))
                if (len(ms) < 1) if e.get("all") else (len(ms) != 1):
                    raise Undecided(f"lost-anchor: {it.path}: edit pattern `{e['from']}` matches {len(ms)} times")
                for m1 in ms:
                    reps.append((b0 + m1.start(), b0 + m1.end(), m1.expand(e["to"].encode()).decode(), dict(org_base, kind="edit", line=e["line"], tags=[])))
                A.edits.append({"item": it.id, "from": "regex " + e["from"], "to": e["to"], "why": e["why"], "occurrences": len(ms)})
                continue
            frm = e["from"].encode()
            cnt = body.count(frm)
            if e.get("all"):
                if cnt < 1:
                    raise Undecided(f"lost-anchor: {it.path}: edit anchor `{e['from']}` does not occur")
                idx = -1
                for _ in range(cnt):
                    idx = body.index(frm, idx + 1)
                    reps.append((b0 + idx, b0 + idx + len(frm), e["to"], dict(org_base, kind="edit", line=e["line"], tags=[])))
            else:
                if cnt != 1:
                    raise Undecided(f"lost-anchor: {it.path}: edit anchor `{e['from']}` occurs {cnt} times")
                st = b0 + body.index(frm)
                reps.append((st, st + len(frm), e["to"], dict(org_base, kind="edit", line=e["line"], tags=[])))
            A.edits.append({"item": it.id, "from": e["from"], "to": e["to"], "why": e["why"], "occurrences": cnt})
        reps.sort(key=lambda r: (r[0], r[1]))
        for a, b in zip(reps, reps[1:]):
            if a[1] > b[0]:
                raise Undecided(f"overlapping splices in {it.path}")
        pos = b0
        for st, en, txt, org in reps:
            if st > pos:
                A.add(src[pos:st].decode(), {"kind": "body", "item": it.id, "file": it.file, "byte": pos, "tags": []})
            A.add(txt, org)
            pos = en
        if pos < b1:
            A.add(src[pos:b1].decode(), {"kind": "body", "item": it.id, "file": it.file, "byte": pos, "tags": []})
        A.add("\n", {"kind": "tpl", "file": it.tpl, "line": it.line, "tags": []})
        info["n_closures_annotated"] = len(it.closures)
        info["n_loops_annotated"] = len(it.loops)
        info["fingerprint"] = {"sig_norm": x["sig_norm"], "n_closures": len(x["closures"]), "n_loops": len(x["loops"]),
                               "closures": [[c["arg_of"], c["params"]] for c in x["closures"]],
                               "loops": [l["kind"] for l in x["loops"]]}
        A.items.append(info)
    A.index()
    return A


# --------------------------------------------------------------------------- verus

def run_verus(path, seed=0, rlimit=None, multiple_errors=20, timeout=900):
    cmd = ["verus", path, "--output-json", "--time-expanded", "--error-format=json",
           "--multiple-errors", str(multiple_errors)]
    if rlimit:
        cmd += ["--rlimit", str(rlimit)]
    if seed:
        cmd += ["--smt-option", f"smt.random_seed={seed}"]
    t0 = time.time()
    env = dict(os.environ)
    try:
        p = subprocess.run(cmd, capture_output=True, text=True, cwd=os.path.dirname(path), timeout=timeout, env=env)
    except subprocess.TimeoutExpired:
        return {"cmd": " ".join(cmd), "timeout": True, "diags": [], "json": None, "wall": time.time() - t0, "stderr": ""}
    diags = []
    other = []
    for ln in p.stderr.split("\n"):
        ln = ln.strip()
        if not ln:
            continue
        if ln.startswith("{"):
            try:
                diags.append(json.loads(ln))
                continue
            except Exception:
                pass
        other.append(ln)
    js = None
    try:
        js = json.loads(p.stdout)
    except Exception:
        pass
    return {"cmd": " ".join(cmd), "rc": p.returncode, "diags": diags, "json": js, "wall": time.time() - t0,
            "stderr_other": other, "stdout": p.stdout if js is None else ""}


def classify_diag(d):
    msg = d.get("message", "")
    lvl = d.get("level")
    if lvl != "error":
        return "ignore"
    if re.match(r"aborting due to", msg):
        return "ignore"
    for p in UNDECIDED_PATTERNS:
        if re.search(p, msg, re.I):
            return "undecided"
    for p in VERIF_FAIL_PATTERNS:
        if re.search(p, msg):
            return "fail"
    return "tool"


def analyse(A, res):
    """-> dict(failures=[...], undecided=[...], functions={name:..}, verified=int, errors=int)"""
    out = {"failures": [], "undecided": [], "functions": [], "verified": 0, "errors": 0}
    if res.get("timeout"):
        out["undecided"].append("verus wall-clock timeout")
        return out
    js = res["json"]
    if js is None:
        out["undecided"].append("verus produced no JSON: " + " | ".join(res.get("stderr_other", [])[:5]) + res.get("stdout", "")[:300])
    else:
        vr = js.get("verification-results", {})
        out["verified"] = vr.get("verified", 0)
        out["errors"] = vr.get("errors", 0)
        if vr.get("encountered-vir-error"):
            out["undecided"].append("verus VIR error (unsupported construct or ill-formed spec)")
        panicked = [l for l in res.get("stderr_other", []) if "panicked at" in l or "internal error" in l]
        if panicked:
            # a crash of the verifier is a tool limit, never a verdict (and never a silent pass)
            out["undecided"].append("tool: verus crashed: " + " | ".join(panicked[:2])[:300])
        elif res.get("rc", 0) != 0 and not res["diags"]:
            out["undecided"].append(f"tool: verus exited with status {res.get('rc')} and no diagnostics")
        try:
            for m in js["times-ms"]["smt"]["smt-run-module-times"]:
                for f in m.get("function-breakdown", []):
                    out["functions"].append({"function": f["function"], "ms": f["time-micros"] / 1000.0,
                                             "rlimit": f["rlimit"], "success": f["success"], "mode": f.get("mode:")})
        except Exception:
            pass
    for d in res["diags"]:
        c = classify_diag(d)
        if c == "ignore":
            continue
        spans = list(d.get("spans", []))
        # a span inside a macro expansion (write!, format!, panic! shadows): also attribute it to the macro's call site,
        # which is in the extracted body
        for sp in list(spans):
            ex = sp.get("expansion")
            while ex:
                cs = ex.get("span")
                if cs and cs.get("file_name") == sp.get("file_name") and not any(x.get("byte_start") == cs.get("byte_start") and x.get("byte_end") == cs.get("byte_end") for x in spans):
                    spans.append(cs)
                ex = cs.get("expansion") if cs else None
        orgs = []
        for sp in spans:
            org = A.origin_at(sp["byte_start"])
            if org is not None and sp["byte_end"] > sp["byte_start"]:
                # a clause may span several template lines: gather the tags of every segment it covers
                extra = []
                for s0, e0, o in A.offs:
                    if s0 < sp["byte_end"] and e0 > sp["byte_start"] and o.get("item") == org.get("item") and o.get("kind") == org.get("kind"):
                        for t in o.get("tags", []):
                            if t not in extra:
                                extra.append(t)
                if extra != org.get("tags", []):
                    org = dict(org, tags=extra, _seg=org)
            orgs.append((sp, org))
        if c in ("undecided", "tool"):
            where = ""
            if orgs and orgs[0][1]:
                o = orgs[0][1]
                where = f" at {o.get('file')}:{o.get('line', '')} ({o.get('kind')}{' of ' + o['item'] if o.get('item') else ''})"
            out["undecided"].append(f"{'tool' if c == 'tool' else 'solver'}: {d.get('message')}{where}")
            continue
        items = []
        tags = []
        where = []
        for sp, org in orgs:
            if org is None:
                continue
            if org.get("item") and org["item"] not in items:
                items.append(org["item"])
            for t in org.get("tags", []):
                if t not in tags:
                    tags.append(t)
            if org["kind"] == "body":
                ex = extract_file(org["file"])
                # byte offset within the body segment
                segstart = [s for s, e, o in A.offs if o is org or o is org.get("_seg")][0]
                off = org["byte"] + (sp["byte_start"] - segstart)
                where.append({"what": "code", "file": org["file"], "line": byte_line(ex["src"], off), "label": sp.get("label"),
                              "text": (sp.get("text") or [{}])[0].get("text", "").strip()})
            else:
                where.append({"what": org["kind"], "file": org.get("file"), "line": org.get("line"), "label": sp.get("label"),
                              "text": (sp.get("text") or [{}])[0].get("text", "").strip()[:300], "k": org.get("k")})
        out["failures"].append({"message": d.get("message"), "items": items, "tags": tags, "where": where,
                                "rendered": d.get("rendered", "")})
    return out


def write_generated(A, variant=""):
    os.makedirs(os.path.join(WORK, "gen"), exist_ok=True)
    p = os.path.join(WORK, "gen", f"u_{A.unit}{variant}.rs")
    with open(p, "w") as f:
        f.write(A.text())
    return p


def trusted_scan(A):
    """list every assumption-introducing construct of the generated file, with origin"""
    out = []
    forbidden = []
    pat = re.compile(r"external_body|assume_specification|\baxiom\b|\bassume\s*\(|\badmit\s*\(|external_type_specification|"
                     r"uninterp\s+spec\s+fn|#\[verifier::external\]|verifier::truncate")
    segs = A.segs
    for n, (text, org) in enumerate(segs):
        for m in pat.finditer(text):
            ln = text[:m.start()].count("\n")
            line_text = text.split("\n")[ln].strip()
            if line_text.startswith("//"):
                continue
            if org["kind"] == "body" and re.search(r"assume\s*\(|admit\s*\(", m.group(0)):
                forbidden.append(f"{org['file']}: {line_text}")
            if org["kind"] in ("tpl",):
                shown = line_text
                if re.fullmatch(r"#\[[^\]]*\]", line_text):
                    # attribute-only line: show the item it decorates
                    for t2, o2 in segs[n + 1:n + 6]:
                        l2 = t2.strip()
                        if l2 and not l2.startswith("#[") and not l2.startswith("//"):
                            shown = line_text + " " + l2
                            break
                out.append(f"{org['file']}:{org['line']}: {shown[:200]}")
            elif org["kind"] in ("spec", "closure", "loop", "ghost", "prologue") and re.search(r"assume|admit", m.group(0)):
                forbidden.append(f"{org['file']}:{org.get('line')}: {line_text}")
            elif org["kind"] == "edit" and "truncate" in m.group(0):
                out.append(f"{org['file']}:{org.get('line')}: extraction edit attaches #[verifier::truncate] to an `as` cast of {org.get('item')} (Rust's wrapping cast semantics)")
    return sorted(set(out)), forbidden


def canary_rounds(A):
    """Partition the fn items so that no item in a round mentions (calls) another item of the same round:
    a callee with `ensures false` would make its caller verify vacuously."""
    fns = [i for i in A.items if i["kind"] == "fn"]
    body = {}
    for i in fns:
        body[i["id"]] = "".join(t for t, o in A.segs if o.get("item") == i["id"] and o["kind"] in ("body", "closure", "edit"))
    name = {i["id"]: re.split(r"::", i["path"])[-1].replace("fn ", "").strip() for i in fns}
    edges = {i["id"]: set() for i in fns}
    for a in fns:
        for b in fns:
            if a["id"] != b["id"] and re.search(r"\b" + re.escape(name[b["id"]]) + r"\s*(::<[^>]*>)?\s*\(", body[a["id"]]):
                edges[a["id"]].add(b["id"])
                edges[b["id"]].add(a["id"])
    rounds = []
    for i in fns:
        for rd in rounds:
            if not (edges[i["id"]] & set(rd)):
                rd.append(i["id"])
                break
        else:
            rounds.append([i["id"]])
    return rounds


def verify_unit(unit, seed=0, rlimit=None, do_canary=True, mutant=None):
    t0 = time.time()
    A = assemble(unit, mutant=mutant)
    path = write_generated(A, "" if not mutant else "__mut_" + str(mutant.get("n", 0)))
    if A.meta.get("rlimit"):
        rlimit = max(rlimit or 0, A.meta["rlimit"])
    res = run_verus(path, seed=seed, rlimit=rlimit)
    an = analyse(A, res)
    n_fn_items = len([i for i in A.items if i["kind"] == "fn"])
    if not an["failures"] and not an["undecided"] and an["verified"] < n_fn_items:
        an["undecided"].append(f"tool: verus reports {an['verified']} verified functions for {n_fn_items} functions under contract (zero-obligation guard)")
    r = {"unit": unit, "A": A, "path": path, "res": res, "an": an, "canary": None}
    trusted, forbidden = trusted_scan(A)
    r["trusted"] = trusted
    if forbidden:
        an["undecided"].append("assume/admit inside extracted code or its spliced contracts: " + "; ".join(forbidden))
    if do_canary and not mutant:
        rounds = canary_rounds(A)
        failed_items = set()
        cundec = []
        cwall = 0.0
        with ThreadPoolExecutor(max_workers=4) as ex:
            futs = []
            for n, rd in enumerate(rounds):
                C = assemble(unit, canary=set(rd))
                cpath = write_generated(C, f"__canary{n}")
                futs.append((C, rd, ex.submit(run_verus, cpath, seed, rlimit, 2)))
            for C, rd, fu in futs:
                cres = fu.result()
                cwall += cres["wall"]
                can = analyse(C, cres)
                for f in can["failures"]:
                    for i in f["items"]:
                        if i in rd:
                            failed_items.add(i)
                cundec += can["undecided"]
        exempt = [i["id"] for i in A.items if i["kind"] == "fn" and i.get("vacuous")]
        fn_items = [i["id"] for i in A.items if i["kind"] == "fn" and not i.get("vacuous")]
        vac = [i for i in fn_items if i not in failed_items]
        r["canary"] = {"functions": len(fn_items), "rejected": len(fn_items) - len(vac), "vacuous": vac, "unreachable_by_contract": exempt,
                       "rounds": len(rounds), "undecided": cundec, "wall": round(cwall, 2)}
        if vac:
            an["undecided"].append("vacuity canary: `ensures false` verified for " + ", ".join(vac[:4]) + (f" (+{len(vac) - 4} more)" if len(vac) > 4 else ""))
        # canary tool errors (other than the expected failures) indicate a broken unit
        for u in sorted(set(cundec)):
            if not u.startswith("solver") and u not in an["undecided"]:
                an["undecided"].append("canary: " + u)
    r["wall"] = time.time() - t0
    return r


# --------------------------------------------------------------------------- known findings

def load_known():
    known, fixed = [], []
    if os.path.exists(KNOWN):
        with open(KNOWN) as f:
            for ln in f:
                ln = ln.strip()
                if not ln or ln.startswith("#"):
                    continue
                if ln.startswith("known:"):
                    m = re.match(r"known:\s*property=(\S+)\s+clause=(\S+)\s+item=(\S+)\s+(.*)$", ln)
                    if m:
                        known.append({"property": m.group(1), "clause": m.group(2), "item": m.group(3), "what": m.group(4)})
                elif ln.startswith("fixed:"):
                    fixed.append(ln)
    return known, fixed


# --------------------------------------------------------------------------- property check

def failure_props(f, A):
    """which properties a failure is attributed to, with clause names"""
    props = {}
    for p, n in f["tags"]:
        props.setdefault(p, [])
        if n and n not in props[p]:
            props[p].append(n)
    if not props:
        # untagged: a safety obligation (overflow, division, unwrap precondition ...) of the extracted code
        for iid in f["items"]:
            for i in A.items:
                if i["id"] == iid:
                    for p in i["safety"]:
                        props.setdefault(p, [])
                        if "safety" not in props[p]:
                            props[p].append("safety")
                    # an untagged failure inside a function (loop invariant, ghost assert, closure postcondition, callee
                    # precondition) breaks the proof of EVERY clause of that function: the postconditions are only
                    # established relative to it, so Verus does not report them separately
                    for p in i["props"]:
                        props.setdefault(p, [])
                        if not props[p]:
                            props[p].append("proof-of-" + i["id"].split("::")[-1].replace(" ", "_"))
    return props


def item_has_clause_for(A, iid, prop):
    for text, org in A.segs:
        if org.get("item") == iid and any(p == prop for p, _ in org.get("tags", [])):
            return True
    return False


def clause_count(A, prop):
    """number of tagged contract lines serving `prop` + names"""
    names = []
    n = 0
    for text, org in A.segs:
        for p, nm in org.get("tags", []):
            if p == prop:
                n += 1
                if nm and nm not in names:
                    names.append(nm)
    return n, names


def sample_clauses(A, prop, limit=6):
    out = []
    for text, org in A.segs:
        if any(p == prop for p, _ in org.get("tags", [])):
            out.append({"item": org.get("item"), "clause": strip_comment(text).strip()[:240],
                        "names": [n for p, n in org.get("tags", []) if p == prop]})
            if len(out) >= limit:
                break
    return out


def check_property(prop, tier="quick", seed=0):
    t0 = time.time()
    units = units_serving(prop)
    if not units and prop not in KANI_HARNESSES:
        print(f"UNDECIDED property={prop}: no unit serves it")
        return 2
    seeds = [seed] if tier == "quick" else [seed, seed + 1, seed + 2]
    results = []
    undecided = []
    with ThreadPoolExecutor(max_workers=int(os.environ.get("VERIF_JOBS", "8"))) as ex:
        futs = {}
        bat_fut = ex.submit(run_battery, prop, tier)
        kani_fut = ex.submit(run_kani, prop) if prop in KANI_HARNESSES else None
        for u in units:
            for s in seeds:
                futs[(u, s)] = ex.submit(_safe_verify, u, s, None if tier == "quick" else 20, s == seeds[0])
        for k, fu in futs.items():
            r = fu.result()
            if isinstance(r, str):
                undecided.append(f"{k[0]}: {r}")
            else:
                results.append((k, r))
        bat = bat_fut.result()
        kani = kani_fut.result() if kani_fut else None
    # ---- Kani twins of the leaf kernels: thorough tier always; quick tier when the Verus unit could not decide or failed
    twins = {}
    for u in units:
        if u not in list_twins():
            continue
        unit_undecided = any(x.startswith(u + ":") or x.startswith(u + "[") for x in undecided)
        unit_res = [r for (uu, s0), r in results if uu == u]
        unit_failed = any(r["an"]["failures"] or r["an"]["undecided"] for r in unit_res)
        if tier == "thorough" or unit_undecided or unit_failed:
            twins[u] = run_twin(u)
    known, fixed = load_known()
    violations, known_hits = [], []
    functions, obligations, discharged = [], 0, 0
    fuc, trusted, samples, solver_ms, canaries, edits = [], [], [], 0.0, [], []
    seen_v = set()
    unstable = []
    per_unit_fail = {}
    for (u, s), r in results:
        A, an = r["A"], r["an"]
        for msg in an["undecided"]:
            undecided.append(f"{u}[seed {s}]: {msg}")
        fails_here = []
        for f in an["failures"]:
            if not f["items"]:
                undecided.append(f"{u}: proof failure outside extracted code (lemma/prelude): {f['message']} {f['where'][:1]}")
                continue
            props = failure_props(f, A)
            if prop not in props:
                # a clause tagged for another property failed in a function that ALSO serves this property and has no
                # clause of its own tagged for it (e.g. a trait-level contract line): the function's contribution to this
                # property rests on that clause, so the failure is reported here too
                for iid in f["items"]:
                    it0 = next((i for i in A.items if i["id"] == iid), None)
                    if it0 and prop in it0["props"] and not item_has_clause_for(A, iid, prop):
                        props.setdefault(prop, []).append("proof-of-" + iid.split("::")[-1].replace(" ", "_") + " (" + ", ".join(f"{p}:{n}" for p, n in f["tags"]) + ")")
                        break
            if prop not in props:
                continue
            fails_here.append(f)
            for cl in props[prop] or ["untagged"]:
                key = (u, tuple(f["items"]), cl, f["message"])
                if key in seen_v:
                    continue
                seen_v.add(key)
                v = {"unit": u, "items": f["items"], "clause": cl, "message": f["message"], "where": f["where"],
                     "rendered": f["rendered"], "seed": s}
                kn = [k for k in known if k["property"] == prop and k["clause"] == cl and k["item"] in f["items"]]
                if kn:
                    known_hits.append((v, kn[0]))
                else:
                    violations.append(v)
        per_unit_fail.setdefault(u, []).append(len(fails_here))
        if s != seeds[0]:
            continue
        # evidence from the first seed's run
        nclauses, names = clause_count(A, prop)
        # counting rule: one obligation per function under contract that serves this property (its Verus query: body against
        # contract, including every safety condition) + one per tagged contract clause of this property. Functions of the
        # unit that serve other properties only, lemmas and spec functions are listed under verus_queries but not counted.
        fn_items_prop = [i["id"] for i in A.items if i["kind"] == "fn" and prop in (i["props"] + i["safety"])]
        failing_items = {iid for f in fails_here for iid in f["items"]}
        obligations += len(fn_items_prop) + nclauses
        nfail_clauses = len({(tuple(f["items"]), tuple(f["tags"]), f["message"], json.dumps(f["where"][:1])) for f in fails_here})
        discharged += len([i for i in fn_items_prop if i not in failing_items]) + max(0, nclauses - nfail_clauses)
        solver_ms += sum(f["ms"] for f in an["functions"])
        for f in an["functions"]:
            functions.append({"unit": u, "function": f["function"], "ms": round(f["ms"], 2), "rlimit": f["rlimit"],
                              "success": f["success"], "backend": "verus/z3"})
        for i in A.items:
            if i["kind"] == "fn" and prop in (i["props"] + i["safety"]):
                fuc.append({"unit": u, "file": i["file"], "item": i["path"], "lines": i.get("body_lines"), "sha256_body": i.get("sha256"),
                            "serves": i["props"], "closures_annotated": i.get("n_closures_annotated"), "loops_annotated": i.get("n_loops_annotated")})
        trusted += [f"[{u}] {t}" for t in r["trusted"]]
        samples += sample_clauses(A, prop, 4)
        edits += A.edits
        if r["canary"]:
            canaries.append({"unit": u, **{k: v for k, v in r["canary"].items() if k != "path"}})
    for u, counts in per_unit_fail.items():
        if len(set(c > 0 for c in counts)) > 1:
            unstable.append(u)
            undecided.append(f"{u}: verdict differs between SMT seeds (unstable proof)")
    # ---- Kani twins
    twin_ev = []
    for u, tw in twins.items():
        if not tw["ran"]:
            undecided.append(f"{u}: kani twin: {tw['note']}")
            twin_ev.append({"unit": u, "ran": False, "note": tw["note"]})
            continue
        full = [h for h in tw["harnesses"] if not h["name"].endswith("_bounded")]
        bnd = [h for h in tw["harnesses"] if h["name"].endswith("_bounded")]
        for h in tw["harnesses"]:
            if h["ok"] is False:
                cl = h["name"].split("::")[-1]
                v = {"unit": u + " (kani twin)", "items": [h["name"]], "clause": cl, "message": "Kani twin harness failed: the extracted function body violates the contract clause for a concrete operand",
                     "where": [{"what": "harness", "file": f"spec/twins/{u}.rs", "line": None, "label": "; ".join(h["detail"][:3]), "text": h["name"]}],
                     "rendered": "\n".join(h["detail"]) + "\n" + twin_counterexample(u, h["name"]), "seed": seed}
                kn = [k for k in known if k["property"] == prop and k["clause"] == cl]
                if kn:
                    known_hits.append((v, kn[0]))
                else:
                    violations.append(v)
            elif h["ok"] is None:
                undecided.append(f"{u}: kani twin: harness {h['name']} gave no verdict")
        all_ok = all(h["ok"] for h in tw["harnesses"])
        if all_ok:
            # the twin decides the top-level clauses of every function it contains, whatever the shape of the bodies:
            # lost anchors / unsupported constructs of the Verus unit for these functions are no longer undecided
            twin_paths = {i["path"] for i in tw["items"]}
            try:
                _, parts = read_template(u)
                unit_paths = {pt[1].path for pt in parts if pt[0] == "item" and pt[1].kind == "fn"}
            except Undecided:
                unit_paths = None
            if unit_paths is not None and unit_paths <= twin_paths:
                before = len(undecided)
                undecided[:] = [x for x in undecided if not (x.startswith(u + ":") or x.startswith(u + "["))]
                if len(undecided) != before:
                    obligations += len(full)
                    discharged += len(full)
                    for h in full:
                        functions.append({"unit": u + " (kani twin)", "function": h["name"], "ms": round((h["time"] or 0) * 1000, 1), "rlimit": None,
                                          "success": True, "backend": "kani 0.68 / cbmc 6.11", "cbmc_checks": h["checks"]})
        twin_ev.append({"unit": u, "ran": True, "cmd": tw["cmd"], "harnesses": [{"name": h["name"], "ok": h["ok"], "cbmc_checks": h["checks"], "s": h["time"]} for h in tw["harnesses"]],
                        "full_domain": [h["name"] for h in full], "bounded": [h["name"] + " (operands |x| <= 2^7 or a 64-bit boundary value; no float view)" for h in bnd],
                        "functions": tw["items"], "wall_s": tw.get("wall"),
                        "note": "same function bodies extracted from /repo, compiled against executable stand-ins (spec/twins/%s.rs); loop-free, full-domain symbolic operands" % u})
    # ---- Kani harnesses on the real crate (loop-free, full-domain => complete proofs)
    kani_ev = None
    if kani is not None:
        if not kani["ran"]:
            undecided.append("kani: " + kani["note"])
        else:
            for h in kani["harnesses"]:
                obligations += 1
                if h["ok"]:
                    discharged += 1
                elif h["ok"] is None:
                    undecided.append(f"kani: harness {h['name']} gave no verdict")
                else:
                    cl = h["name"].split("::")[-1]
                    v = {"unit": "kani", "items": [h["name"]], "clause": cl, "message": "Kani harness failed on the real crate",
                         "where": [{"what": "harness", "file": "kani/src/lib.rs", "line": None, "label": "; ".join(h["detail"][:4]), "text": h["name"]}],
                         "rendered": "\n".join(h["detail"]) + "\n" + kani_counterexample(h["name"]), "seed": seed}
                    kn = [k for k in known if k["property"] == prop and k["clause"] == cl]
                    if kn:
                        known_hits.append((v, kn[0]))
                    else:
                        violations.append(v)
                functions.append({"unit": "kani", "function": h["name"], "ms": round((h["time"] or 0) * 1000, 1), "rlimit": None,
                                  "success": bool(h["ok"]), "backend": "kani 0.68 / cbmc 6.11", "cbmc_checks": h["checks"]})
            kani_ev = {"cmd": kani["cmd"], "harnesses": len(kani["harnesses"]), "cbmc_checks_total": sum(h["checks"] for h in kani["harnesses"]),
                       "wall_s": kani.get("wall"), "domain": "all i64, all f64 (NaN, +-0, +-inf), bool; loop-free harnesses, unwind(2) only bounds the unreachable Str memcmp (unwinding assertions on)"}
            samples += [{"item": KANI_SUBJECT[prop][1] + " via kani/src/lib.rs", "clause": h["name"], "names": []} for h in kani["harnesses"][:4]]
            fuc.append({"unit": "kani", "file": KANI_SUBJECT[prop][0], "item": KANI_SUBJECT[prop][1],
                        "lines": None, "sha256_body": None, "serves": [prop], "closures_annotated": 0, "loops_annotated": 0})
            trusted.append("[kani] kani 0.68 / CBMC 6.11 / CaDiCaL; harnesses reach the real code through the public API of liquid-core (path dependency on /repo/crates/core)")
    # ---- bounded stand-in / witness search: the boundary battery on the real code
    bat_viol = []
    for f in bat["failing"]:
        w = f["witness"]
        key = w.get("template") or json.dumps(w.get("templates") or w.get("kind"))
        cl = "battery:" + hashlib.sha256(json.dumps(w, sort_keys=True).encode()).hexdigest()[:10]
        kn = [k for k in known if k["property"] == prop and k["clause"].startswith("battery") and k["item"] in (cl, "*") and (k["clause"] == "battery" or k["clause"] == cl)]
        v = {"unit": "battery", "items": [], "clause": cl, "message": "real code contradicts the property on a concrete input",
             "where": [{"what": "input", "file": None, "line": None, "label": w.get("note", ""), "text": str(key)[:200]}],
             "rendered": f"observed on real code: {f['observed']}\nexpected: {json.dumps(w.get('expect'))}", "seed": seed, "witness": w, "observed": f["observed"]}
        if kn:
            known_hits.append((v, kn[0]))
        else:
            bat_viol.append(v)
    extra = {}
    if tier == "thorough":
        extra = thorough_extras(prop, units, undecided, violations)
    wall = time.time() - t0
    ev = {
        "property_id": prop, "tier": tier, "seed": seed, "level": "proof",
        "coverage": {
            "obligations": obligations, "discharged": discharged,
            "checker_cmd": ("verus work/gen/<unit>.rs --output-json --time-expanded --error-format=json --multiple-errors 20 (one run per unit + one `ensures false` canary run per unit)" if units else "") + ("; " + kani_ev["cmd"] + " (in kani/)" if kani_ev else ""),
            "kani": kani_ev,
            "kani_twins": twin_ev,
            "trusted_base": sorted(set(trusted)),
            "obligation_counting_rule": "one per function under contract that serves this property (its Verus query carries all its safety obligations: overflow, div-by-zero, unwrap/index preconditions, callee preconditions) plus one per contract line tagged with this property; other functions, lemmas and spec functions of the same units appear under verus_queries but are not counted",
            "units": units,
            "functions_under_contract": fuc,
            "verus_queries": functions,
            "solver_ms_total": round(solver_ms, 1),
            "vacuity_canaries": canaries,
            "extraction_edits": edits,
            "samples": samples or [{"note": "safety obligations only (no tagged clause)"}],
            "known_findings_reported": [k["what"] for _, k in known_hits],
            "bounded": [{
                "kind": "boundary battery: concrete inputs run on the real code through replay/ with the expectation the property statement dictates (tools/battery.py); NOT a proof, never counted in obligations",
                "stands_in_for": BOUNDED_STANDS_IN.get(prop, "functions the property depends on that are not under contract"),
                "bound": BATTERY_BOUNDS.get(prop, "") + ("; " + BATTERY_BOUNDS_THOROUGH if tier == "thorough" else ""),
                "ran": bat.get("ran"), "witnesses": bat.get("witnesses"), "failing": len(bat.get("failing", [])), "wall_s": bat.get("wall"), "note": bat.get("note"),
            }],
            "undecided": undecided,
            **extra,
        },
        "assumptions": assumptions_text(),
        "wall_s": round(wall, 2),
        "violations": len(violations) + len(bat_viol),
    }
    os.makedirs(os.path.join(VERIF, "evidence"), exist_ok=True)
    with open(os.path.join(VERIF, "evidence", f"{prop}.json"), "w") as f:
        json.dump(ev, f, indent=1)
    for v, k in known_hits:
        print(f"KNOWN-FINDING: property={prop} {k['what']} [clause {k['clause']} of {k['item']}]")
    if violations or bat_viol:
        os.makedirs(os.path.join(WORK, "replay"), exist_ok=True)
        first_w = bat_viol[0] if bat_viol else None
        for v in violations:
            rp = os.path.join(WORK, "replay", f"{prop}-{re.sub(r'[^A-Za-z0-9_]+', '_', v['unit'])}-{re.sub(r'[^A-Za-z0-9_]+', '_', v['clause'])}.json")
            witness = first_w["witness"] if first_w else None
            with open(rp, "w") as f:
                json.dump({"property": prop, "obligation": {"unit": v["unit"], "items": v["items"], "clause": v["clause"],
                                                            "verifier_message": v["message"], "where": v["where"]},
                           "verifier": "verus 0.2026.09.13 / z3", "verifier_output": v["rendered"],
                           "witness": witness, "witness_source": "boundary battery (first input of this property's battery that the real code gets wrong)" if witness else None,
                           "observed": first_w["observed"] if first_w else None}, f, indent=1)
            tail = "" if witness else " no-failing-input-found"
            print(f"VIOLATION property={prop} replay={rp}{tail}")
            for w in v["where"]:
                print(f"   {w['what']}: {w.get('file')}:{w.get('line')}: {w.get('label') or ''} {w.get('text', '')[:160]}")
        if not violations:
            # no obligation failed (the code concerned is not under contract, or its unit is undecided): report the
            # concrete failing inputs themselves, at most three
            for v in bat_viol[:3]:
                rp = os.path.join(WORK, "replay", f"{prop}-{re.sub(r'[^A-Za-z0-9_]+', '_', v['clause'])}.json")
                with open(rp, "w") as f:
                    json.dump({"property": prop, "obligation": {"unit": "bounded stand-in (boundary battery)", "clause": v["clause"],
                                                                "verifier_message": v["message"], "undecided_units": undecided},
                               "verifier": "none (bounded stand-in): the input below was run on the real code",
                               "verifier_output": v["rendered"], "witness": v["witness"], "observed": v["observed"]}, f, indent=1)
                print(f"VIOLATION property={prop} replay={rp}")
                print(f"   input: {v['where'][0]['text']}")
                print(f"   {v['rendered'].splitlines()[0][:200]}")
            if len(bat_viol) > 3:
                print(f"   (+{len(bat_viol) - 3} more failing battery inputs)")
        if undecided:
            for u in undecided:
                print(f"   (also undecided: {u})")
        return 1
    if undecided:
        for u in undecided:
            print(f"UNDECIDED property={prop}: {u}")
        return 2
    print(f"OK property={prop} tier={tier} units={','.join(units + (['kani'] if kani is not None else []))} obligations={obligations} discharged={discharged} wall={wall:.1f}s")
    return 0


def _safe_verify(u, seed, rlimit, do_canary):
    try:
        return verify_unit(u, seed=seed, rlimit=rlimit, do_canary=do_canary)
    except Undecided as e:
        return str(e)


BOUNDED_STANDS_IN = {
    "C14": "SortFilter/SortNaturalFilter (std sort_by with the nil-safe comparators), UniqFilter, CompactFilter, ConcatFilter, MapFilter, WhereFilter, JoinFilter (iterator chains without a usable vstd contract), as_sequence",
    "C08": "effects across the partial boundary (assignments through RefCell, interrupts in the sandbox's own registers, shared counters), the partial stores (eager compiler), render `with`/`for` argument parsing",
    "C09": "hidden state anywhere outside the runtime (statics, caches in renderables or partial stores), Registers::default, the lazily compiled partial store; renders that fail midway",
    "C11": "value_eq / value_cmp on arrays, objects, nil, states, strings, dates and date-times (iterator chains over dyn ValueView; the Date/DateTime arms of scalar_eq/scalar_cmp), construction independence of objects",
    "C12": "serde_json round trips (incl. date-times with a sub-millisecond fraction), to_value / from_value integer narrowing, structs exposed through derive(ObjectView, ValueView) against the same struct converted through serde; the forwarding impls themselves are under contract (unit views)",
    "C05": "descending integer ranges (vstd has no contract for an empty RangeInclusive), break/continue handling (interrupt state behind RefCell), argument parsing of the tags",
    "C06": "value_eq / value_cmp on non-scalars (veq/vcmp are uninterpreted in the contracts), scalar query_state tables beyond Kani's domain, parse_condition / CaseBlock::parse (pest tokens)",
    "C07": "parse_literal and literal printing (pest grammar), the ObjectView/ArrayView impls of user data; end-to-end paths over nested data as a cross-check of the units",
    "C10": "what bytes a chunk contains, Display impls that reach the sink in several writes (arrays, objects), short writes (std's write_all), error paths that format the text",
    "C13": "str adapters (chars/skip/take/collect are assumed in the contract), the derive-generated argument evaluation, the other string filters used in the composition law",
    "C15": "ScalarCow::to_integer/to_float (numeric strings), f64 intrinsics floor/ceil/round and the float->int cast (uninterpreted in the contracts), Display of numbers",
    "C18": "what a RefCell contains after set_global/set_index (only the target cell is under contract), drop of a layer",
    "C04": "persistence of the assigned value (RefCell content), lifetime of loop scopes, derive-generated argument evaluation of the tags",
    "C02": "every function reached by the battery inputs of the other properties (no panic)",
}
BATTERY_BOUNDS_THOROUGH = "thorough tier: C05 lengths 0..6 x offset/limit {absent, 0..8} (the property's own bound); C15 additionally 1500 random 64-bit operand pairs (VERIF_SEED); C04 6000 generated programs; C18 stack model to depth 3"
BATTERY_BOUNDS = {
    "C14": "all orderings of up to 4 elements drawn from pools of integers with duplicates and nils, strings with duplicates and nils, all-nil, singleton and empty arrays (400 arrays) for sort/reverse/uniq/compact/concat/size/join/first/last; case-differing strings for sort_natural; all orderings of up to 4 objects from 7 (property present, absent, nil, false, duplicates) for map/where/compact/sort by property incl. stability; where with nil targets (literal and variable); map / where on property names that collide with the path overlay (size, first, last); stability on 40-element arrays",
    "C08": "700 caller programs x 8 partials: include and render with 5 argument forms (incl. same-name forwarding), from outside and inside loops, reading/assigning/counting/breaking/continuing over shared names, counters bumped before the call, missing and unparsable partials on executed and dead paths; against a reference interpreter of the two scoping disciplines",
    "C09": "all histories of 3 render calls over 3 templates (stateful constructs, a render failing midway inside a loop after a break and inside capture, include/render of a partial) x 2 data objects sharing one parser, all histories of 5 calls over 2 templates x 2 data, histories with ifchanged whose first content repeats the previous render's last, a capture failing after it captured text followed by another capture, and histories interleaving render_to calls whose sink fails; every call compared with a freshly built parser on a fresh thread",
    "C11": "all ordered pairs of a 49-value pool (nil, booleans, integers incl. 2^53 and the i64 bounds, floats incl. +-0, inf, NaN, strings, dates and date-times on equal and different days, empty/blank, arrays and objects nested two deep incl. multi-key objects), each value built twice independently",
    "C12": "the same 49 values through to_value, ValueCow::{Owned,Borrowed}, as_view, Option/& and serde_json; integers at the u64/i64 boundary; 10 float values (whole, fractional, beyond 2^63, inf, NaN) read into 6 integer types; 6 chars incl. non-ASCII through serde and back; 6 instances of 3 derived structs (all-default, filled, blank-ish, nested) against their serde conversion on every state query, kind, size, key and member",
    "C05": "arrays of length 0..4 x offset {absent,0,1,2,5} x limit {absent,0,1,2,5} x reversed; ranges incl. empty/descending; tablerow cols {absent,1,2,3}; break/continue at index 1..3 in two nesting levels",
    "C06": "all ordered pairs of a 16-value pool for the ==/!=/</>/<=/>=/case laws; truthiness of each; if/elsif chains of 1..4 arms with all truth assignments; case arms incl. empty bodies, duplicate arms and content before the first when; contains over 8 containers x 8 needles incl. nil; nil / empty / blank strings, arrays and objects against the empty and blank literals in both orders and in case/when; or/and grouping",
    "C07": "arrays of length 0..3, every index in [-len-2, len+1] as literal, variable and nested path; every path of length 1..3 (thorough: 4) over nested data whose keys collide with size/first/last, integer-like keys and strings, against a reference step function; integer literals at the 64-bit boundaries and 2^53",
    "C10": "15 templates covering text (incl. long non-ASCII), output (incl. arrays and objects that reach the sink in several writes), for, raw, increment/decrement, cycle, if/unless/case, tablerow, ifchanged, capture/assign, include/render, elements that write after a child raised an interrupt; sink failing at every write k, sinks accepting 1 or 3 bytes per call, short-then-fail at every call",
    "C13": "6 strings (ASCII and non-ASCII) x offsets -7..8 x lengths {absent,1,2,5}; arrays of length 0,1,3; chain composition for 5 chains",
    "C15": "all pairs of 18 boundary integers for 7 binary filters, abs and numeric strings on each, floor/ceil/round on k/8 for |k| <= 40",
    "C18": "state-space exploration of push scope/sandbox/global, assign-global, set-counter to depth 2 (quick) / 3 (thorough) over all 9 base maps, every path of length 1..2 in both lookup forms, roots and counters, against a stack-of-maps model",
    "C04": "19 scoping templates (assign/capture persistence incl. empty captures, loop-variable lifetime, shadowing order, include arguments incl. same-name forwarding against assign/capture inside the partial, counters) and 3200 generated programs against a reference interpreter",
}


def assumptions_text():
    p = os.path.join(SPEC, "assumptions.txt")
    if os.path.exists(p):
        with open(p) as f:
            return [l.strip() for l in f if l.strip() and not l.startswith("#")]
    return []


def thorough_extras(prop, units, undecided, violations):
    """mutation self-test: every registered seeded fault of the units serving this property must be rejected"""
    res = []
    for u in units:
        try:
            for r in run_mutants(u):
                res.append(dict(r, unit=u))
        except Undecided as e:
            undecided.append(f"{u}: mutation self-test: {e}")
    surv = [r for r in res if r["outcome"] == "survived"]
    und = [r for r in res if r["outcome"] == "undecided"]
    for r in surv:
        undecided.append(f"{r['unit']}: mutation self-test: a registered seeded fault is NOT rejected by the contracts: {r['desc']}")
    return {"mutation_self_test": {"mutants": len(res), "killed": len([r for r in res if r["outcome"] == "killed"]),
                                   "survived": [r["desc"] for r in surv], "undecided": [r["desc"] + " :: " + r["detail"][:120] for r in und],
                                   "rule": "textual faults from spec/mutants/<unit>.json applied to a COPY of the source file, then extracted and verified like the real code; never applied to /repo",
                                   "samples": [{"unit": r["unit"], "fault": r["desc"], "rejected_by": r["detail"]} for r in res[:8]]}}


def find_witness(prop, v):
    return None


# --------------------------------------------------------------------------- dev commands

def cmd_unit(args):
    unit = args[0]
    try:
        r = verify_unit(unit, do_canary="--no-canary" not in args)
    except Undecided as e:
        print("UNDECIDED:", e)
        return 2
    an = r["an"]
    print(f"{unit}: verified={an['verified']} errors={an['errors']} wall={r['wall']:.1f}s file={r['path']}")
    for f in an["functions"]:
        print(f"   {'ok ' if f['success'] else 'FAIL'} {f['function']} {f['ms']:.0f}ms rlimit={f['rlimit']}")
    for f in an["failures"]:
        print("FAIL:", f["message"], "items=", f["items"], "tags=", f["tags"])
        if "--show" in args:
            print(f["rendered"])
        else:
            for w in f["where"]:
                print(f"     {w['what']}: {w.get('file')}:{w.get('line')} {w.get('label') or ''} | {w.get('text', '')[:140]}")
    for u in an["undecided"]:
        print("UNDECIDED:", u)
    if an["undecided"] and "--show" in args:
        for d in r["res"]["diags"]:
            if d.get("level") == "error":
                print(d.get("rendered"))
        print("\n".join(r["res"].get("stderr_other", [])[:40]))
    if r["canary"]:
        c = r["canary"]
        print(f"canary: {c['rejected']}/{c['functions']} functions reject `ensures false`; vacuous={c['vacuous'][:4]}")
    return 0 if not an["failures"] and not an["undecided"] else 1


def load_mutants(unit):
    p = os.path.join(SPEC, "mutants", unit + ".json")
    if not os.path.exists(p):
        return []
    with open(p) as f:
        return json.load(f)


def resolve_item_id(A, short):
    for i in A.items:
        if i["id"] == short or i["path"] == short:
            return i["id"]
    for i in A.items:
        pth = i["path"]
        if pth.endswith(short) and (len(pth) == len(short) or not (pth[-len(short) - 1].isalnum() or pth[-len(short) - 1] == "_")):
            return i["id"]
    return None


def run_mutants(unit, seed=0):
    """-> list of dict(desc, outcome in killed|survived|undecided, detail)"""
    muts = load_mutants(unit)
    if not muts:
        return []
    A0 = assemble(unit)
    out = []

    def one(n, m):
        iid = resolve_item_id(A0, m["item"])
        if iid is None:
            return {"desc": m.get("desc", ""), "outcome": "undecided", "detail": f"item {m['item']} not in unit"}
        try:
            r = verify_unit(unit, seed=seed, do_canary=False, mutant={"item": iid, "find": m["find"], "replace": m["replace"], "n": n, "occurrence": m.get("occurrence")})
        except Undecided as e:
            return {"desc": m.get("desc", ""), "outcome": "undecided", "detail": str(e)}
        an = r["an"]
        fails = [f for f in an["failures"] if iid in f["items"]]
        if fails:
            tags = sorted({f"{p}:{n2}" for f in fails for p, n2 in f["tags"]}) or ["safety"]
            return {"desc": m.get("desc", ""), "outcome": "killed", "detail": ", ".join(tags), "item": m["item"], "find": m["find"], "replace": m["replace"]}
        if an["undecided"]:
            return {"desc": m.get("desc", ""), "outcome": "undecided", "detail": "; ".join(an["undecided"])[:300]}
        return {"desc": m.get("desc", ""), "outcome": "survived", "detail": "", "item": m["item"], "find": m["find"], "replace": m["replace"]}

    with ThreadPoolExecutor(max_workers=int(os.environ.get("VERIF_JOBS", "8"))) as ex:
        futs = [ex.submit(one, n, m) for n, m in enumerate(muts)]
        for fu in futs:
            out.append(fu.result())
    return out


def cmd_mutants(args):
    units = args or list_units()
    bad = 0
    for u in units:
        for r in run_mutants(u):
            print(f"{u}: {r['outcome'].upper():9} {r['desc']}  [{r['detail']}]")
            if r["outcome"] != "killed":
                bad += 1
    return 1 if bad else 0


def build_replay():
    env = dict(os.environ, CARGO_NET_OFFLINE="true", CARGO_TARGET_DIR=os.path.join(WORK, "replay-target"))
    rd = os.path.join(VERIF, "replay")
    try:
        import shutil
        shutil.copyfile(os.path.join(REPO, "Cargo.lock"), os.path.join(rd, "Cargo.lock"))
    except Exception:
        pass
    p = subprocess.run(["cargo", "build", "--offline", "--quiet"], cwd=rd, env=env, capture_output=True, text=True)
    if p.returncode != 0:
        return None, p.stderr[-2000:]
    return os.path.join(WORK, "replay-target", "debug", "replay"), ""


KANI_HARNESSES = {"C11": "c11_", "C12": "c12_", "C06": "c06_"}
KANI_SUBJECT = {
    "C11": ("crates/core/src/model/scalar/mod.rs", "impl PartialEq/PartialOrd for ScalarCow (scalar_eq, scalar_cmp), From<i64/f64/bool>"),
    "C12": ("crates/core/src/model/scalar/ser.rs", "to_scalar / ScalarSerializer / serialize_as_i64; ScalarCow::{to_integer,to_float,to_bool}"),
    "C06": ("crates/core/src/model/scalar/mod.rs", "impl ValueView for ScalarCow / i64 / f64 / bool :: query_state (truthiness tables)"),
}


def run_kani(prop):
    """Kani harnesses on the real liquid-core crate (kani/): -> dict(ran, harnesses=[{name, ok, checks, failed, time}], note)"""
    prefix = KANI_HARNESSES[prop]
    kd = os.path.join(VERIF, "kani")
    try:
        import shutil
        shutil.copyfile(os.path.join(REPO, "Cargo.lock"), os.path.join(kd, "Cargo.lock"))
    except Exception:
        pass
    env = dict(os.environ, CARGO_NET_OFFLINE="true", CARGO_TARGET_DIR=os.path.join(WORK, "kani-target"))
    cmd = ["cargo", "kani", "-j", str(os.cpu_count() or 8), "--output-format=terse", "--harness", prefix]
    t0 = time.time()
    try:
        p = subprocess.run(cmd, cwd=kd, env=env, capture_output=True, text=True, timeout=3000)
    except subprocess.TimeoutExpired:
        return {"ran": False, "note": "cargo kani timed out", "harnesses": [], "cmd": " ".join(cmd)}
    out = p.stdout + "\n" + p.stderr
    thread_h, cur, res = {}, None, {}
    for ln in out.split("\n"):
        m = re.match(r"Thread (\d+): (Checking harness (\S+?)\.\.\.)?", ln)
        if m:
            cur = m.group(1)
            if m.group(3):
                thread_h[cur] = m.group(3)
                res.setdefault(m.group(3), {"name": m.group(3), "ok": None, "checks": 0, "failed": 0, "time": None, "detail": []})
            continue
        if cur is None or cur not in thread_h:
            continue
        r = res[thread_h[cur]]
        m = re.search(r"\*\* (\d+) of (\d+) failed", ln)
        if m:
            r["failed"], r["checks"] = int(m.group(1)), int(m.group(2))
        if "VERIFICATION:- SUCCESSFUL" in ln:
            r["ok"] = True
        elif "VERIFICATION:- FAILED" in ln:
            r["ok"] = False
        m = re.search(r"Verification Time: ([0-9.]+)s", ln)
        if m:
            r["time"] = float(m.group(1))
        if re.match(r"\s*(Failed Checks|File:|\s+- )", ln) or "Failed Checks" in ln:
            r["detail"].append(ln.strip())
    hs = list(res.values())
    if not hs:
        return {"ran": False, "note": "kani produced no harness results (does kani/ build against the current /repo?): " + out[-600:], "harnesses": [], "cmd": " ".join(cmd)}
    return {"ran": True, "harnesses": hs, "wall": round(time.time() - t0, 1), "note": "", "cmd": " ".join(cmd)}


def kani_counterexample(harness):
    """re-run one failing harness with concrete playback to obtain the concrete values"""
    kd = os.path.join(VERIF, "kani")
    env = dict(os.environ, CARGO_NET_OFFLINE="true", CARGO_TARGET_DIR=os.path.join(WORK, "kani-target"))
    short = harness.split("::")[-1]
    try:
        p = subprocess.run(["cargo", "kani", "--harness", short, "-Z", "concrete-playback", "--concrete-playback=print", "--output-format=terse"],
                           cwd=kd, env=env, capture_output=True, text=True, timeout=1800)
    except subprocess.TimeoutExpired:
        return "concrete playback timed out"
    out = p.stdout
    i = out.find("Concrete playback")
    return out[i:i + 3000] if i >= 0 else out[-2000:]


# --------------------------------------------------------------------------- Kani twins of the leaf kernels

def list_twins():
    d = os.path.join(SPEC, "twins")
    return sorted(f[:-3] for f in os.listdir(d) if f.endswith(".rs")) if os.path.isdir(d) else []


def assemble_twin(unit):
    """the twin template: plain Rust + `//@ item` blocks (signature + verbatim body, nothing spliced)"""
    path = os.path.join(SPEC, "twins", unit + ".rs")
    out, items = [], []
    with open(path) as f:
        lines = f.read().split("\n")
    i = 0
    while i < len(lines):
        ln = lines[i]
        s = ln.strip()
        if s.startswith("//@ item"):
            rest = s[len("//@ item"):].strip()
            file, ipath = [x.strip() for x in rest.split("::", 1)]
            sig = None
            i += 1
            while i < len(lines) and not lines[i].strip().startswith("//@ end"):
                t = lines[i].strip()
                if t.startswith("//@ sig"):
                    sig = t[len("//@ sig"):].strip()
                i += 1
            ex = extract_file(file)
            cands = ex["by_path"].get(ipath, [])
            if cands and cands[0]["kind"] in ("struct", "enum"):
                x = cands[0]
                text = ex["src"][x["kw_start"]:x["end"]].decode()
                text = re.sub(r"\bpub(\([a-z]+\))?\s+", "", text)
                text = re.sub(r"(?m)^\s*#\[[^\]]*\]\s*$", "", text)
                text = re.sub(r"(?m)^\s*///.*$", "", text)
                out.append("pub " + re.sub(r"(?m)^(\s+)([a-z_][A-Za-z0-9_]*\s*:)", r"\1pub \2", text))
                i += 1
                continue
            if not cands or cands[0]["kind"] != "fn" or cands[0]["body"] is None:
                raise Undecided(f"lost-anchor: twin {unit}: item `{ipath}` not found in {file}")
            x = cands[0]
            body = ex["src"][x["body"]["start"]:x["body"]["end"]].decode()
            out.append((sig or x["sig_text"]) + " " + body)
            items.append({"file": file, "path": ipath, "sha256_body": hashlib.sha256(body.encode()).hexdigest(),
                          "lines": [byte_line(ex["src"], x["body"]["start"]), byte_line(ex["src"], x["body"]["end"])]})
        elif s.startswith("//@"):
            pass
        else:
            out.append(ln)
        i += 1
    return "\n".join(out) + "\n", items


def run_twin(unit, prefix=None):
    """-> dict(ran, harnesses, items, note)"""
    try:
        text, items = assemble_twin(unit)
    except Undecided as e:
        return {"ran": False, "note": str(e), "harnesses": [], "items": []}
    cd = os.path.join(WORK, "twin-" + unit)
    os.makedirs(os.path.join(cd, "src"), exist_ok=True)
    with open(os.path.join(cd, "Cargo.toml"), "w") as f:
        f.write('[package]\nname = "twin-%s"\nversion = "0.1.0"\nedition = "2021"\n[workspace]\n[lints.rust]\nunexpected_cfgs = { level = "allow", check-cfg = [\'cfg(kani)\'] }\n' % unit)
    with open(os.path.join(cd, "src", "lib.rs"), "w") as f:
        f.write(text)
    env = dict(os.environ, CARGO_NET_OFFLINE="true", CARGO_TARGET_DIR=os.path.join(WORK, "twin-target"))
    # the unchanged bodies are loop-free; `--default-unwind 8` only matters if a changed body introduces a loop, and then an
    # "unwinding assertion" failure is reported as UNDECIDED, never as a violation
    cmd = ["cargo", "kani", "-Z", "function-contracts", "-Z", "stubbing", "-j", str(os.cpu_count() or 8), "--output-format=terse", "--default-unwind", "8"] + (["--harness", prefix] if prefix else [])
    t0 = time.time()
    tmo = int(os.environ.get("VERIF_TWIN_TIMEOUT", "600"))
    try:
        p = subprocess.Popen(cmd, cwd=cd, env=env, stdout=subprocess.PIPE, stderr=subprocess.STDOUT, text=True, start_new_session=True)
        try:
            so, _ = p.communicate(timeout=tmo)
        except subprocess.TimeoutExpired:
            import signal
            os.killpg(os.getpgid(p.pid), signal.SIGKILL)
            p.communicate()
            return {"ran": False, "note": f"twin exceeded {tmo}s (a changed body the SAT back end cannot handle in budget)", "harnesses": [], "items": items}
        p = type("R", (), {"stdout": so, "stderr": ""})()
    except Exception as e:
        return {"ran": False, "note": f"twin failed to start: {e}", "harnesses": [], "items": items}
    out = p.stdout + "\n" + p.stderr
    if "error: could not compile" in out or re.search(r"^error(\[E\d+\])?:", out, re.M) and "VERIFICATION" not in out:
        errs = [l for l in out.split("\n") if l.startswith("error")][:4]
        return {"ran": False, "note": "twin does not compile (the changed body uses something outside the executable stand-ins): " + " | ".join(errs), "harnesses": [], "items": items}
    thread_h, cur, res = {}, None, {}
    for ln in out.split("\n"):
        m = re.match(r"Thread (\d+): (Checking harness (\S+?)\.\.\.)?", ln)
        if m:
            cur = m.group(1)
            if m.group(3):
                thread_h[cur] = m.group(3)
                res.setdefault(m.group(3), {"name": m.group(3), "ok": None, "checks": 0, "failed": 0, "time": None, "detail": []})
            continue
        if cur is None or cur not in thread_h:
            continue
        r = res[thread_h[cur]]
        m = re.search(r"\*\* (\d+) of (\d+) failed", ln)
        if m:
            r["failed"], r["checks"] = int(m.group(1)), int(m.group(2))
        if "VERIFICATION:- SUCCESSFUL" in ln:
            r["ok"] = True
        elif "VERIFICATION:- FAILED" in ln:
            r["ok"] = False
        m = re.search(r"Verification Time: ([0-9.]+)s", ln)
        if m:
            r["time"] = float(m.group(1))
        if "Failed Checks" in ln or re.match(r"\s*File:", ln):
            r["detail"].append(ln.strip())
    hs = list(res.values())
    for h in hs:
        fc = [d for d in h["detail"] if d.startswith("Failed Checks")]
        if h["ok"] is False and fc and all("unwinding assertion" in d for d in fc):
            h["ok"] = None   # bound too small for a loop the changed code introduced: undecided
    if not hs:
        return {"ran": False, "note": "twin produced no harness results: " + out[-500:], "harnesses": [], "items": items}
    return {"ran": True, "harnesses": hs, "items": items, "wall": round(time.time() - t0, 1), "note": "", "cmd": " ".join(cmd), "dir": cd}


def twin_counterexample(unit, harness):
    cd = os.path.join(WORK, "twin-" + unit)
    env = dict(os.environ, CARGO_NET_OFFLINE="true", CARGO_TARGET_DIR=os.path.join(WORK, "twin-target"))
    short = harness.split("::")[-1]
    try:
        p = subprocess.run(["timeout", "-s", "KILL", "300", "cargo", "kani", "--harness", short, "-Z", "concrete-playback", "--concrete-playback=print", "--output-format=terse", "--default-unwind", "8"],
                           cwd=cd, env=env, capture_output=True, text=True, timeout=400)
    except subprocess.TimeoutExpired:
        return "concrete playback timed out"
    out = p.stdout
    i = out.find("Concrete playback")
    return out[i:i + 2500] if i >= 0 else out[-1500:]


def cmd_twin(args):
    r = run_twin(args[0], args[1] if len(args) > 1 else None)
    if not r["ran"]:
        print("UNDECIDED:", r["note"])
        return 2
    bad = 0
    for h in r["harnesses"]:
        print(f"   {'ok  ' if h['ok'] else 'FAIL'} {h['name']} checks={h['checks']} {h['time']}s {' | '.join(h['detail'][:2])}")
        bad += 0 if h["ok"] else 1
    print(f"twin {args[0]}: {len(r['harnesses'])} harnesses, {bad} failed, wall {r['wall']}s")
    return 1 if bad else 0


def run_battery(prop, tier):
    """-> dict(ran, witnesses, failing=[{witness, observed}], note)"""
    sys.path.insert(0, os.path.join(VERIF, "tools"))
    try:
        import battery as bat
    except Exception as e:
        return {"ran": False, "note": f"battery module: {e}", "witnesses": 0, "failing": []}
    ws = bat.battery(prop, thorough=(tier == "thorough"))
    if not ws:
        return {"ran": False, "note": "no battery for this property", "witnesses": 0, "failing": []}
    t0 = time.time()
    binp, err = build_replay()
    if binp is None:
        return {"ran": False, "note": "replay tool does not build against the current /repo (battery skipped): " + err[-300:], "witnesses": len(ws), "failing": []}
    # the replay tool catches panics; an ABORT of the process (allocation failure, stack overflow, a signal) kills it in
    # the middle of the list. That input is then itself a failing witness (the real code brought the process down); the
    # run continues after it (at most 5 such restarts).
    failing, lines, start, restarts = [], [], 0, 0
    while start < len(ws):
        try:
            p = subprocess.run([binp, "--stdin"], input=json.dumps(ws[start:]), capture_output=True, text=True, timeout=900)
        except subprocess.TimeoutExpired:
            return {"ran": False, "note": "battery timed out", "witnesses": len(ws), "failing": []}
        got = [l for l in p.stdout.split("\n") if l.strip()]
        lines += got
        if len(got) == len(ws) - start:
            break
        if p.returncode < 0 or p.returncode in (134, 139) or p.returncode > 128:
            culprit = ws[start + len(got)]
            tail = [l for l in p.stderr.split("\n") if l.strip() and "stack backtrace" not in l]
            lines.append(json.dumps({"holds": False, "observed": f"the process was KILLED (status {p.returncode}) while running this input: " + " | ".join(tail[:2])[:300]}))
            start = len(lines)
            restarts += 1
            if restarts > 5:
                break          # enough: six inputs brought the process down; the rest of the list is not run
            continue
        return {"ran": False, "note": f"replay produced {len(lines)} results for {len(ws)} witnesses (crash?) {p.stderr[-200:]}", "witnesses": len(ws), "failing": []}
    for w, l in zip(ws, lines):
        r = json.loads(l)
        if not r["holds"]:
            failing.append({"witness": w, "observed": r["observed"]})
    return {"ran": True, "witnesses": len(ws), "failing": failing, "wall": round(time.time() - t0, 2), "note": ""}


def cmd_replay(args):
    if not args:
        print("usage: check replay <file>")
        return 2
    binp, err = build_replay()
    if binp is None:
        print("replay tool does not build against the current /repo:\n" + err)
        return 2
    p = subprocess.run([binp, args[0]], capture_output=True, text=True)
    sys.stdout.write(p.stdout)
    sys.stderr.write(p.stderr)
    return p.returncode


def cmd_pin(args):
    fps = {}
    for u in list_units():
        A = assemble(u, check_fp=False)
        fps[u] = {i["id"]: dict(i["fingerprint"], sha256_body=i["sha256"]) for i in A.items if i["kind"] == "fn"}
    with open(os.path.join(SPEC, "fingerprints.json"), "w") as f:
        json.dump(fps, f, indent=1, sort_keys=True)
    print("pinned", sum(len(v) for v in fps.values()), "items in", len(fps), "units")
    return 0


def main():
    if len(sys.argv) < 2:
        print(__doc__)
        return 2
    cmd = sys.argv[1]
    args = sys.argv[2:]
    os.makedirs(WORK, exist_ok=True)
    if cmd == "check":
        prop = args[0]
        tier = os.environ.get("VERIF_TIER", "quick")
        if "--tier" in args:
            tier = args[args.index("--tier") + 1]
        seed = int(os.environ.get("VERIF_SEED", "0") or 0)
        try:
            return check_property(prop, tier, seed)
        except Undecided as e:
            print(f"UNDECIDED property={prop}: {e}")
            return 2
    if cmd == "unit":
        return cmd_unit(args)
    if cmd == "pin":
        return cmd_pin(args)
    if cmd == "mutants":
        return cmd_mutants(args)
    if cmd == "replay":
        return cmd_replay(args)
    if cmd == "twin":
        try:
            return cmd_twin(args)
        except Undecided as e:
            print("UNDECIDED:", e)
            return 2
    print(__doc__)
    return 2


if __name__ == "__main__":
    sys.exit(main())

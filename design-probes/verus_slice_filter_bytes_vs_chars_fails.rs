use vstd::prelude::*;
use vstd::std_specs::cmp::OrdSpec;
verus! {

// ---------------- prelude (strings abstracted to three lengths + a char sequence) ----------------
#[verifier::external_body]
pub struct Error { _p: u8 }
pub type Result<T> = core::result::Result<T, Error>;
pub trait Runtime { }

#[verifier::external_body]
pub struct KStringCow { _p: u8 }
impl KStringCow {
    pub uninterp spec fn chars_view(&self) -> Seq<char>;
    pub uninterp spec fn byte_len(&self) -> nat;
    #[verifier::external_body]
    pub fn len(&self) -> (r: usize) ensures r == self.byte_len() { unimplemented!() }
    #[verifier::external_body]
    pub fn chars(&self) -> (r: CharIter) ensures r.rest() == self.chars_view() { unimplemented!() }
}
pub broadcast axiom fn axiom_char_len_le_byte_len(s: &KStringCow)
    ensures #[trigger] s.chars_view().len() <= s.byte_len(), s.byte_len() <= isize::MAX;

#[verifier::external_body]
pub struct CharIter { _p: u8 }
impl CharIter {
    pub uninterp spec fn rest(&self) -> Seq<char>;
    #[verifier::external_body]
    pub fn skip(self, n: usize) -> (r: CharIter)
        ensures r.rest() == (if n as int <= self.rest().len() { self.rest().subrange(n as int, self.rest().len() as int) } else { Seq::empty() })
    { unimplemented!() }
    #[verifier::external_body]
    pub fn take(self, n: usize) -> (r: CharIter)
        ensures r.rest() == (if n as int <= self.rest().len() { self.rest().subrange(0, n as int) } else { self.rest() })
    { unimplemented!() }
    #[verifier::external_body]
    pub fn collect<B: FromChars>(self) -> (r: B) ensures r.chars_of() == self.rest() { unimplemented!() }
}
pub trait FromChars { spec fn chars_of(&self) -> Seq<char>; }
impl FromChars for String { uninterp spec fn chars_of(&self) -> Seq<char>; }

#[verifier::external_body]
pub struct Value { _p: u8 }
impl Value {
    pub uninterp spec fn str_chars(&self) -> Seq<char>;
    #[verifier::external_body]
    pub fn scalar(s: String) -> (r: Value) ensures r.str_chars() == s.chars_of() { unimplemented!() }
}
#[verifier::external_body]
pub fn invalid_argument(argument: &str, cause: &str) -> Error { unimplemented!() }
pub struct ErrW { pub e: Error }
impl ErrW { }

pub assume_specification<T: Ord> [std::cmp::min] (a: T, b: T) -> (r: T)
    ensures
        T::obeys_cmp_spec() ==> r == (if a.cmp_spec(&b) == core::cmp::Ordering::Greater { b } else { a }),
;

// ---------------- extracted: canonicalize_slice (after the planned overflow fix) ----------------
pub open spec fn canon_off(off: int, n: int) -> int { let o = if off < n { off } else { n }; if o < 0 { o + n } else { o } }

fn canonicalize_slice(
    slice_offset: isize,
    slice_length: isize,
    vec_length: usize,
) -> (r: (usize, usize))
    requires vec_length <= isize::MAX, slice_length >= 1,
    ensures
        canon_off(slice_offset as int, vec_length as int) >= 0 ==> r.0 == canon_off(slice_offset as int, vec_length as int),
        canon_off(slice_offset as int, vec_length as int) >= 0 ==> r.1 == (if slice_length as int <= vec_length - r.0 { slice_length as int } else { vec_length - r.0 }),
        canon_off(slice_offset as int, vec_length as int) < 0 ==> r.0 > vec_length,
{
    let vec_length = vec_length as isize;

    // Cap slice_offset
    let slice_offset = std::cmp::min(slice_offset, vec_length);
    // Reverse indexing
    let slice_offset = if slice_offset < 0 {
        slice_offset + vec_length
    } else {
        slice_offset
    };

    // Cap slice_length
    let slice_length = if slice_length > vec_length - slice_offset {
        vec_length - slice_offset
    } else {
        slice_length
    };

    (#[verifier::truncate] (slice_offset as usize), slice_length as usize)
}

// ---------------- extracted: string branch of SliceFilter::evaluate ----------------
pub struct DynValueView { pub s: KStringCow }
impl DynValueView {
    #[verifier::external_body]
    pub fn to_kstr(&self) -> (r: KStringCow) ensures r == self.s { unimplemented!() }
}

pub open spec fn char_slice(s: Seq<char>, off: int, len: int) -> Seq<char> {
    let n = s.len() as int;
    let o = canon_off(off, n);
    if o < 0 { Seq::empty() } else { s.subrange(o, if o + len <= n { o + len } else { n }) }
}

fn slice_string(input: &DynValueView, offset: isize, length: isize) -> (res: Result<Value>)
    requires length >= 1,
    ensures res matches Ok(v) ==> v.str_chars() =~= char_slice(input.s.chars_view(), offset as int, length as int),
{
            broadcast use axiom_char_len_le_byte_len;
            let input = input.to_kstr();
            let (offset, length) = canonicalize_slice(offset, length, input.len());
            Ok(Value::scalar(
                input.chars().skip(offset).take(length).collect::<String>(),
            ))
}

} // verus!
fn main() {}

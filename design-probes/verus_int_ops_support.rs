use vstd::prelude::*;
verus! {
pub assume_specification [i64::abs] (i: i64) -> (r: i64)
    requires i != i64::MIN,
    ensures r == (if i < 0 { -i } else { i as int }),
;

fn divmod(i: i64, o: i64) -> (r: (i64, i64))
    requires o != 0, !(i == i64::MIN && o == -1),
    ensures i == r.0 * o + r.1,
{
    (i / o, i % o)
}

fn chk(i: i64, o: i64) -> (r: Option<i64>)
    ensures r.is_some() ==> r.unwrap() == i + o,
            r.is_none() ==> (i + o > i64::MAX || i + o < i64::MIN),
{
    i.checked_add(o)
}

fn chk_mul(i: i64, o: i64) -> (r: Option<i64>)
    ensures r.is_some() ==> r.unwrap() == i * o,
{
    i.checked_mul(o)
}

fn absx(i: i64) -> (r: i64)
    requires i != i64::MIN,
    ensures r >= 0, r == i || r == -i,
{
    i.abs()
}

fn mx(i: i64, o: i64) -> (r: i64) ensures r >= i, r >= o, r == i || r == o { i.max(o) }

fn cast(i: i64) -> (r: usize) { i as usize }

fn fl(a: f64, b: f64) -> f64 { a + b }

} // verus!
fn main() {}

//@ unit index
//@ serves C07 C02 C14
//@ include prelude/header.rs
verus! {

// ---------------- assumed environment of model/array/mod.rs ----------------
pub trait ValueView { }
/// the unsizing coercion `&T -> &dyn ValueView` as a spec term (identity of the element handed out)
pub open spec fn as_dyn<T: ValueView>(v: &T) -> &dyn ValueView { v }

/// trait declaration with the contract every implementation's `get` must meet:
/// "array elements by zero-based index with negative indices counting from the end";
/// a step that does not exist yields None (the caller turns it into an error), never a neighbour.
pub trait ArrayView: ValueView {
    spec fn elems(&self) -> Seq<&dyn ValueView>;
    fn size(&self) -> (r: i64)
        ensures r == self.elems().len();                                                              // [C07:size_is_len]
    fn contains_key(&self, index: i64) -> (r: bool)
        ensures -self.elems().len() <= index ==> r == (index < self.elems().len());                   // [C07:contains_key_in_range]
    fn get(&self, index: i64) -> (r: Option<&dyn ValueView>)
        ensures
            0 <= index < self.elems().len() ==> r == Some(self.elems()[index as int]),                // [C07:index_from_start]
            -self.elems().len() <= index < 0 ==> r == Some(self.elems()[self.elems().len() + index]), // [C07:index_from_end]
            index >= self.elems().len() ==> r is None,                                                // [C07:index_past_end_is_none]
            index < -self.elems().len() ==> r is None;                                                // [C07:index_before_start_is_none]
//@ item crates/core/src/model/array/mod.rs :: trait ArrayView::first
//@ props C07 C14
//@ sig fn first(&self) -> (r: Option<&dyn ValueView>)
//@ spec
        ensures
            self.elems().len() > 0 ==> r == Some(self.elems()[0]),                     // [C07:first_is_index_0] [C14:first_agrees_with_indexing]
            self.elems().len() == 0 ==> r is None,                                     // [C07:first_of_empty]
//@ end
//@ item crates/core/src/model/array/mod.rs :: trait ArrayView::last
//@ props C07 C14
//@ sig fn last(&self) -> (r: Option<&dyn ValueView>)
//@ spec
        ensures
            self.elems().len() > 0 ==> r == Some(self.elems()[self.elems().len() - 1]),   // [C07:last_is_index_minus_1] [C14:last_agrees_with_indexing]
            self.elems().len() == 0 ==> r is None,                                        // [C07:last_of_empty]
//@ end
}

impl<T: ValueView> ValueView for Vec<T> { }

impl<T: ValueView> ArrayView for Vec<T> {
    open spec fn elems(&self) -> Seq<&dyn ValueView> { Seq::new(self@.len(), |i: int| as_dyn::<T>(&self@[i])) }
//@ item crates/core/src/model/array/mod.rs :: impl ArrayView for Vec<T>::size
//@ props C07 C02
//@ sig fn size(&self) -> (r: i64)
//@ prologue
    broadcast use axiom_vec_len_isize;
//@ end
//@ item crates/core/src/model/array/mod.rs :: impl ArrayView for Vec<T>::contains_key
//@ props C07 C02
//@ sig fn contains_key(&self, index: i64) -> (r: bool)
//@ end
//@ item crates/core/src/model/array/mod.rs :: impl ArrayView for Vec<T>::get
//@ props C07 C02
//@ sig fn get(&self, index: i64) -> (r: Option<&dyn ValueView>)
//@ edit <<index as usize>> => <<#[verifier::truncate] (index as usize)>> why: Rust's `as` between integer types wraps; Verus otherwise leaves an out-of-range cast unspecified
//@ ghost before <<let value =>>
proof { assert(index < 0 ==> (#[verifier::truncate] (index as usize)) >= 0x8000_0000_0000_0000usize) by (bit_vector); broadcast use axiom_vec_len_isize; }
//@ closure 0 arg_of=map params=v
|v: &T| -> (r: &dyn ValueView) ensures r == as_dyn::<T>(v)
//@ end
}

//@ item crates/core/src/model/array/mod.rs :: fn convert_value
//@ props C07
//@ sig fn convert_value(s: &dyn ValueView) -> (r: &dyn ValueView)
//@ spec
    ensures r == s,
//@ end

//@ item crates/core/src/model/array/mod.rs :: fn convert_index
//@ props C07 C02
//@ sig fn convert_index(index: i64, max_size: i64) -> (r: i64)
//@ spec
    requires 0 <= max_size,      // call sites pass self.size()
    ensures
        index >= 0 ==> r == index,                      // [C07:convert_nonnegative]
        index < 0 ==> r == max_size + index,            // [C07:convert_negative_counts_from_end]
//@ end

} // verus!
fn main() {}

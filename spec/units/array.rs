//@ unit array
//@ serves C14 C13 C02
//@ include prelude/header.rs
use core::cmp;
verus! {
//@ include prelude/std.rs
//@ include prelude/error.rs
//@ include prelude/runtime.rs
//@ include prelude/value.rs
//@ include prelude/expr.rs

/// lower-cased sort key (stand-in for String; its order is the uninterpreted `key_cmp`)
#[verifier::external_body]
pub struct KeyStr { _p: u8 }
pub uninterp spec fn key_cmp(a: KeyStr, b: KeyStr) -> Option<cmp::Ordering>;
pub uninterp spec fn lowered(s: KStringCow) -> KeyStr;
impl PartialEq for KeyStr {
    #[verifier::external_body]
    fn eq(&self, other: &Self) -> (r: bool) ensures r == (key_cmp(*self, *other) == Some(cmp::Ordering::Equal)) { unimplemented!() }
}
impl PartialOrd for KeyStr {
    #[verifier::external_body]
    fn partial_cmp(&self, other: &Self) -> (r: Option<cmp::Ordering>) ensures r == key_cmp(*self, *other) { unimplemented!() }
}
impl KStringCow {
    #[verifier::external_body]
    pub fn to_lowercase(&self) -> (r: KeyStr) ensures r == lowered(*self) { unimplemented!() }
}
/// "sort is non-decreasing for mutually comparable elements with nil last": the comparator puts nil after everything else
//@ item crates/lib/src/stdlib/filters/array.rs :: fn nil_safe_compare
//@ props C14 C02
//@ sig fn nil_safe_compare(a: &dyn ValueView, b: &dyn ValueView) -> (r: Option<cmp::Ordering>)
//@ spec
    ensures
        (a.nil_of() && b.nil_of()) ==> r == Some(cmp::Ordering::Equal),                 // [C14:nil_equals_nil]
        (a.nil_of() && !b.nil_of()) ==> r == Some(cmp::Ordering::Greater),              // [C14:nil_sorts_last]
        (!a.nil_of() && b.nil_of()) ==> r == Some(cmp::Ordering::Less),                 // [C14:nil_sorts_last_mirrored]
        (!a.nil_of() && !b.nil_of()) ==> r == vcmp(a.vid_of(), b.vid_of()),             // [C14:otherwise_the_value_order]
//@ end

//@ item crates/lib/src/stdlib/filters/array.rs :: fn nil_safe_casecmp_key
//@ props C14 C02
//@ sig fn nil_safe_casecmp_key(value: &dyn ValueView) -> (r: Option<KeyStr>)
//@ spec
    ensures
        value.nil_of() ==> r is None,                                                     // [C14:natural_key_of_nil_is_none]
        !value.nil_of() ==> r == Some(lowered(value.kstr_of())),                          // [C14:natural_key_is_the_lowercased_text]
//@ end

//@ item crates/lib/src/stdlib/filters/array.rs :: fn nil_safe_casecmp
//@ props C14 C02
//@ sig fn nil_safe_casecmp(a: &Option<KeyStr>, b: &Option<KeyStr>) -> (r: Option<cmp::Ordering>)
//@ spec
    ensures
        (*a is None && *b is None) ==> r == Some(cmp::Ordering::Equal),
        (*a is None && *b is Some) ==> r == Some(cmp::Ordering::Greater),               // [C14:natural_sort_nil_last]
        (*a is Some && *b is None) ==> r == Some(cmp::Ordering::Less),
//@ end

// ---------------- first / last ----------------
impl CharIter {
    #[verifier::external_body]
    pub fn next(&mut self) -> (r: Option<char>)
        ensures old(self).rest().len() == 0 ==> r is None,
                old(self).rest().len() > 0 ==> r == Some(old(self).rest()[0])
    { unimplemented!() }
    #[verifier::external_body]
    pub fn last(self) -> (r: Option<char>)
        ensures self.rest().len() == 0 ==> r is None,
                self.rest().len() > 0 ==> r == Some(self.rest()[self.rest().len() - 1])
    { unimplemented!() }
}

pub struct FirstFilter;
pub struct LastFilter;
impl FirstFilter {
//@ item crates/lib/src/stdlib/filters/array.rs :: impl Filter for FirstFilter::evaluate
//@ props C14 C13 C02
//@ sig fn evaluate(&self, input: &dyn ValueView, _runtime: &dyn Runtime) -> (r: Result<Value>)
//@ spec
    ensures
        // "first/last ... agree with indexing": element 0, nil for an empty array (ArrayView::first is get(0): unit `index`)
        (input.scalar_of() is None && input.array_of() is Some) ==> (r matches Ok(v) &&
            v.vid() == (if input.array_of()->0.len() > 0 { input.array_of()->0[0] } else { nil_vid() })),        // [C14:first_is_element_zero_or_nil]
        // text: a string of the first CHARACTER (its content is `char::to_string`, unspecified by vstd); empty for empty text
        input.scalar_of() is Some ==> (r matches Ok(v) && v.str_chars() is Some &&
            (input.scalar_of()->0.text().chars_view().len() == 0 ==> v.str_chars() == Some(Seq::<char>::empty()))),   // [C13:first_of_empty_text_is_empty]
        (input.scalar_of() is None && input.array_of() is None) ==> r is Err,                                    // [C14:first_rejects_other_kinds]
//@ closure 0 arg_of=map params=c
|c: char| -> (s: String)
//@ closure 1 arg_of=unwrap_or_else params=
|| -> (s: String) ensures s@ == ""@
//@ closure 2 arg_of=map params=v
|v: &dyn ValueView| -> (o: Value) ensures o.vid() == v.vid_of()
//@ closure 3 arg_of=unwrap_or_else params=
|| -> (o: Value) ensures o.vid() == nil_vid()
//@ prologue
    proof { reveal_strlit(""); }
//@ end
}
impl LastFilter {
//@ item crates/lib/src/stdlib/filters/array.rs :: impl Filter for LastFilter::evaluate
//@ props C14 C13 C02
//@ sig fn evaluate(&self, input: &dyn ValueView, _runtime: &dyn Runtime) -> (r: Result<Value>)
//@ spec
    ensures
        (input.scalar_of() is None && input.array_of() is Some) ==> (r matches Ok(v) &&
            v.vid() == (if input.array_of()->0.len() > 0 { input.array_of()->0[input.array_of()->0.len() - 1] } else { nil_vid() })),   // [C14:last_is_the_final_element_or_nil]
        input.scalar_of() is Some ==> (r matches Ok(v) && v.str_chars() is Some &&
            (input.scalar_of()->0.text().chars_view().len() == 0 ==> v.str_chars() == Some(Seq::<char>::empty()))),   // [C13:last_of_empty_text_is_empty]
        (input.scalar_of() is None && input.array_of() is None) ==> r is Err,                                    // [C14:last_rejects_other_kinds]
//@ closure 0 arg_of=map params=c
|c: char| -> (s: String)
//@ closure 1 arg_of=unwrap_or_else params=
|| -> (s: String) ensures s@ == ""@
//@ closure 2 arg_of=map params=v
|v: &dyn ValueView| -> (o: Value) ensures o.vid() == v.vid_of()
//@ closure 3 arg_of=unwrap_or_else params=
|| -> (o: Value) ensures o.vid() == nil_vid()
//@ prologue
    proof { reveal_strlit(""); }
//@ end
}

} // verus!
fn main() {}

//@ unit find
//@ serves C07 C14 C02
//@ include prelude/header.rs
use vstd::std_specs::iter::IteratorSpec;
verus! {
//@ include prelude/std.rs
//@ include prelude/error.rs
//@ include prelude/value.rs

//@ item crates/core/src/model/value/cow.rs :: enum ValueCow
//@ kind enum
//@ vis pub
//@ end
impl<'s> ValueCow<'s> {
    /// the identity of the value behind either variant
    pub open spec fn vid(&self) -> VId {
        match self { ValueCow::Owned(v) => v.vid(), ValueCow::Borrowed(v) => v.vid_of() }
    }
    #[verifier::external_body]
    pub fn into_owned(self) -> (r: Value) ensures r.vid() == self.vid() { unimplemented!() }
}
impl<'s> From<Value> for ValueCow<'s> {
    #[verifier::external_body]
    fn from(v: Value) -> (r: ValueCow<'s>) ensures r == ValueCow::Owned(v) { unimplemented!() }
}

// ---- structure of a value as a function of its identity (assumed: what a view answers is determined by the value) ----
pub uninterp spec fn vid_array(v: VId) -> Option<Seq<VId>>;
pub uninterp spec fn vid_scalar(v: VId) -> Option<ScalarCow>;
/// the identity of a freshly built integer value
pub uninterp spec fn int_vid(n: int) -> VId;
pub broadcast axiom fn axiom_structure_array(v: &dyn ValueView)
    ensures #[trigger] v.array_of() == vid_array(v.vid_of());
pub broadcast axiom fn axiom_structure_scalar(v: &dyn ValueView)
    ensures #[trigger] v.scalar_of() == vid_scalar(v.vid_of());
pub broadcast group axiom_structure { axiom_structure_array, axiom_structure_scalar }
/// an object's size is the number of its members
pub broadcast axiom fn axiom_entries(o: &dyn ObjectView)
    ensures #[trigger] o.entries() == obj_members(o).dom().len() && obj_members(o).dom().finite();
/// a value built from an integer has that integer's identity
pub broadcast axiom fn axiom_int_value(v: Value)
    ensures (#[trigger] v.num()) matches Some(Num::Int(n)) ==> v.vid() == int_vid(n as int);
/// `ObjectView::get` (extension trait: same cycle as ArrayEnds); agrees with the member map of the value it came from
pub trait ObjectMembers<'a> {
    spec fn members_of(&self) -> Map<Seq<char>, VId>;
    fn get(&self, index: &str) -> (r: Option<&'a dyn ValueView>)
        ensures !self.members_of().dom().contains(index@) ==> r is None,
                self.members_of().dom().contains(index@) ==> (r matches Some(v) && v.vid_of() == self.members_of()[index@]);
}
impl<'a> ObjectMembers<'a> for &'a dyn ObjectView {
    open spec fn members_of(&self) -> Map<Seq<char>, VId> { obj_members(*self) }
    #[verifier::external_body]
    fn get(&self, index: &str) -> (r: Option<&'a dyn ValueView>) { unimplemented!() }
}
impl core::ops::Deref for KStringCow {
    type Target = str;
    #[verifier::external_body]
    fn deref(&self) -> (r: &str) ensures r@ == self.chars_view() { unimplemented!() }
}
impl KStringCow {
    #[verifier::external_body]
    pub fn as_str(&self) -> (r: &str) ensures r@ == self.chars_view() { unimplemented!() }
}
pub assume_specification<'a>[ <core::str::Chars<'a> as Iterator>::count ](c: core::str::Chars<'a>) -> (r: usize)
    ensures r == c.remaining().len();

/// ONE path step, as the property states it: "object members by key, array elements by zero-based index with negative
/// indices counting from the end, and first, last and size by their meaning"; None when the step does not exist.
/// An object's own key wins over the `size` overlay.
pub open spec fn step(v: VId, k: ScalarCow) -> Option<VId> {
    let key = k.text().chars_view();
    match vid_array(v) {
        Some(a) => match k.int_view() {
            Some(i) => seq_idx(a, i as int),
            None =>
                if key == "first"@ { if a.len() > 0 { Some(a[0]) } else { None } }
                else if key == "last"@ { if a.len() > 0 { Some(a[a.len() - 1]) } else { None } }
                else if key == "size"@ { Some(int_vid(a.len() as int)) }
                else { None },
        },
        None => match vid_members(v) {
            Some(m) =>
                if m.dom().contains(key) { Some(m[key]) }
                else if key == "size"@ { Some(int_vid(m.dom().len() as int)) }
                else { None },
            None => match vid_scalar(v) {
                Some(sc) => if key == "size"@ { Some(int_vid(sc.text().chars_view().len() as int)) } else { None },
                None => None,
            },
        },
    }
}

// ---- what `find` needs to build its error message (no contract: the message is not part of any property) ----
impl Error {
    #[verifier::external_body]
    pub fn with_msg(msg: &'static str) -> Error { unimplemented!() }
    #[verifier::external_body]
    pub fn context<K, V>(self, key: K, value: V) -> Error { unimplemented!() }
}
pub mod itertools {
    #[verifier::external_body]
    pub fn join<I>(it: I, sep: &str) -> String { unimplemented!() }
}
impl KStringCow {
    #[verifier::external_body]
    pub fn from_static(s: &'static str) -> KStringCow { unimplemented!() }
    #[verifier::external_body]
    pub fn from_string(s: String) -> KStringCow { unimplemented!() }
}
#[verifier::external_body]
pub struct KeysIter { _p: u8 }
pub trait FromKeys {}
impl FromKeys for Vec<KStringCow> {}
impl KeysIter {
    #[verifier::external_body]
    pub fn collect<B: FromKeys>(self) -> B { unimplemented!() }
}
pub trait ObjectKeys { fn keys(&self) -> KeysIter; }
impl ObjectKeys for &dyn ObjectView {
    #[verifier::external_body]
    fn keys(&self) -> KeysIter { unimplemented!() }
}
/// path elements and found values are values themselves (only the display helpers and the kind tests are used)
impl ValueView for ScalarCow {
    uninterp spec fn vid_of(&self) -> VId;
    uninterp spec fn scalar_of(&self) -> Option<ScalarCow>;
    uninterp spec fn kstr_of(&self) -> KStringCow;
    uninterp spec fn array_of(&self) -> Option<Seq<VId>>;
    uninterp spec fn nil_of(&self) -> bool;
    uninterp spec fn object_size_of(&self) -> Option<int>;
    #[verifier::external_body] fn as_object(&self) -> (r: Option<&dyn ObjectView>) { unimplemented!() }
    #[verifier::external_body] fn is_nil(&self) -> (r: bool) { unimplemented!() }
    #[verifier::external_body] fn as_scalar(&self) -> (r: Option<ScalarCow>) { unimplemented!() }
    #[verifier::external_body] fn to_kstr(&self) -> (r: KStringCow) { unimplemented!() }
    #[verifier::external_body] fn to_value(&self) -> (r: Value) { unimplemented!() }
    #[verifier::external_body] fn as_array(&self) -> (r: Option<&dyn ArrayView>) { unimplemented!() }
}
impl<'s> ValueView for ValueCow<'s> {
    open spec fn vid_of(&self) -> VId { self.vid() }
    uninterp spec fn scalar_of(&self) -> Option<ScalarCow>;
    uninterp spec fn kstr_of(&self) -> KStringCow;
    uninterp spec fn array_of(&self) -> Option<Seq<VId>>;
    uninterp spec fn nil_of(&self) -> bool;
    uninterp spec fn object_size_of(&self) -> Option<int>;
    #[verifier::external_body] fn as_object(&self) -> (r: Option<&dyn ObjectView>) { unimplemented!() }
    #[verifier::external_body] fn is_nil(&self) -> (r: bool) { unimplemented!() }
    #[verifier::external_body] fn as_scalar(&self) -> (r: Option<ScalarCow>) { unimplemented!() }
    #[verifier::external_body] fn to_kstr(&self) -> (r: KStringCow) { unimplemented!() }
    #[verifier::external_body] fn to_value(&self) -> (r: Value) { unimplemented!() }
    #[verifier::external_body] fn as_array(&self) -> (r: Option<&dyn ArrayView>) { unimplemented!() }
}
/// `panic!` inside an extracted body is an obligation: it must be unreachable
#[verifier::external_body]
pub fn must_not_panic() -> ! requires false { unimplemented!() }
}
macro_rules! panic { ($($t:tt)*) => { crate::must_not_panic() } }
//@ include prelude/render_macros.rs
verus! {

pub open spec fn refs(s: Seq<ScalarCow>) -> Seq<&'static ScalarCow> { s.map_values(|k: ScalarCow| &k) }

/// "a variable path is resolved step by step": the fold of `step` over the path, failing at the first step that
/// does not exist
pub open spec fn walk(v: VId, s: Seq<&ScalarCow>) -> Option<VId>
    decreases s.len()
{
    if s.len() == 0 { Some(v) } else {
        match step(v, *s[0]) { None => None, Some(c) => walk(c, s.drop_first()) }
    }
}

//@ item crates/core/src/model/find.rs :: fn augmented_get
//@ props C07 C02
//@ sig fn augmented_get<'o>(value: &'o dyn ValueView, index: &ScalarCow) -> (r: Option<ValueCow<'o>>)
//@ spec
    ensures
        r matches Some(c) ==> step(value.vid_of(), *index) == Some(c.vid()),          // [C07:one_step_by_its_meaning]
        r is None ==> step(value.vid_of(), *index) is None,                            // [C07:a_step_that_does_not_exist_is_none]
//@ editall <<.map(ValueCow::Borrowed)>> => <<.map(|__v: &'o dyn ValueView| -> (__c: ValueCow<'o>) ensures __c == ValueCow::Borrowed(__v), { ValueCow::Borrowed(__v) })>> why: eta-expansion; Verus has no datatype constructors as function values
//@ editreall <<"(\w+)" =>\s>> => <<__k if __k == "\1" => >> why: a string-literal pattern is written as a binding with an equality guard (same arm order, same bodies); Verus has no contract for string patterns
//@ closure 0 arg_of=or_else params=
|| -> (o: Option<ValueCow<'o>>)
    ensures index.chars_view() != "size"@ ==> o is None,
            index.chars_view() == "size"@ ==> (o matches Some(c) && c.vid() == int_vid(obj.entries()))
//@ prologue
    broadcast use axiom_structure, axiom_entries, axiom_int_value, group_kstr; proof { reveal_strlit("first"); reveal_strlit("last"); reveal_strlit("size"); assert("first"@.len() == 5 && "last"@.len() == 4 && "size"@.len() == 4 && "last"@[0] != "size"@[0]); assert("first"@ != "last"@ && "first"@ != "size"@ && "last"@ != "size"@); }
//@ end

//@ item crates/core/src/model/find.rs :: fn try_find_borrowed
//@ props C07 C02
//@ sig fn try_find_borrowed<'o, 'i, I: Iterator<Item = &'i ScalarCow>>(value: &'o dyn ValueView, mut path: I) -> (r: Option<ValueCow<'o>>)
//@ spec
    requires path.obeys_prophetic_iter_laws(), path.decrease() is Some,
    ensures
        r matches Some(c) ==> walk(value.vid_of(), path.remaining()) == Some(c.vid()),      // [C07:path_resolved_step_by_step]
        r is None ==> walk(value.vid_of(), path.remaining()) is None,                       // [C07:missing_step_is_none_not_a_neighbour]
    decreases path.decrease()->0
//@ end

//@ item crates/core/src/model/find.rs :: fn try_find_owned
//@ props C07 C02
//@ sig fn try_find_owned<'o, 'i, I: Iterator<Item = &'i ScalarCow>>(value: Value, mut path: I) -> (r: Option<ValueCow<'o>>)
//@ spec
    requires path.obeys_prophetic_iter_laws(), path.decrease() is Some,
    ensures
        r matches Some(c) ==> walk(value.vid(), path.remaining()) == Some(c.vid()),         // [C07:path_resolved_step_by_step]
        r is None ==> walk(value.vid(), path.remaining()) is None,                          // [C07:missing_step_is_none_not_a_neighbour]
    decreases path.decrease()->0
//@ closure 0 arg_of=map params=v
|v: ValueCow<'_>| -> (o: ValueCow<'o>) ensures o.vid() == v.vid()
//@ end

//@ item crates/core/src/model/find.rs :: fn try_find
//@ props C07 C02
//@ sig pub fn try_find<'o>(value: &'o dyn ValueView, path: &[ScalarCow]) -> (r: Option<ValueCow<'o>>)
//@ spec
    ensures
        r matches Some(c) ==> walk(value.vid_of(), path@.map_values(|k: ScalarCow| &k)) == Some(c.vid()),      // [C07:path_resolved_step_by_step]
        r is None ==> walk(value.vid_of(), path@.map_values(|k: ScalarCow| &k)) is None,                       // [C07:missing_step_is_none_not_a_neighbour]
//@ ghost after re<<let (\w+) = (\w+)\.iter\(\);>>
    proof { assert(\1.remaining() =~= \2@.map_values(|k: ScalarCow| &k)); }
//@ end

// ---------------- property access of the array filters (sort / where / map by property) ----------------
//@ item crates/lib/src/stdlib/filters/array.rs :: fn safe_property_getter
//@ props C14 C02
//@ sig fn safe_property_getter<'a>(value: &'a Value, property: &str) -> (r: &'a dyn ValueView)
//@ spec
    ensures
        // the member when the value is an object that has the property, nil otherwise (never a failure)
        r.vid_of() == (match vid_members(value.vid()) {
            Some(m) => if m.dom().contains(property@) { m[property@] } else { nil_vid() },
            None => nil_vid(),
        }),                                                                              // [C14:missing_property_reads_as_nil]
//@ closure 0 arg_of=and_then params=obj
|obj: &'a dyn ObjectView| -> (o: Option<&'a dyn ValueView>)
    ensures !obj_members(obj).dom().contains(property@) ==> o is None,
            obj_members(obj).dom().contains(property@) ==> (o matches Some(v) && v.vid_of() == obj_members(obj)[property@])
//@ end

//@ item crates/core/src/model/find.rs :: fn find
//@ props C07 C02
//@ sig pub fn find<'o>(value: &'o dyn ValueView, path: &[ScalarCow]) -> (r: Result<ValueCow<'o>>)
//@ spec
    requires
        // every caller (the scope layers of runtime/stack.rs) asks its own map for the root name first
        path@.len() >= 1, step(value.vid_of(), path@[0]) is Some,
    ensures
        // never reaches the `panic!` after the loop (checked as `requires false` of its stand-in)
        r matches Ok(c) ==> walk(value.vid_of(), refs(path@)) == Some(c.vid()),         // [C07:path_resolved_step_by_step]
        r is Err ==> walk(value.vid_of(), refs(path@)) is None,                         // [C07:missing_step_is_an_error]
//@ loop 0 kind=for
    invariant
        path@.len() >= 1, step(value.vid_of(), path@[0]) is Some,
        walk(value.vid_of(), refs(path@)) is None,
        // every prefix longer than the ones still to be tried fails
        forall|n: int| path@.len() - cur_idx < n <= path@.len() ==> walk(value.vid_of(), #[trigger] refs(path@.subrange(0, n))) is None,
//@ ghost before re<<for \w+ in \d+\s*\.\.>>
    proof { assert(path@.subrange(0, path@.len() as int) =~= path@); }
//@ ghost before <<panic!(>>
    proof {
        let p1 = refs(path@.subrange(0, 1));
        assert(p1.len() == 1 && *p1[0] == path@[0]);
        assert(p1.drop_first().len() == 0);
        assert(walk(value.vid_of(), p1) is Some) by { reveal_with_fuel(walk, 3); }
    }
//@ end
}
fn main() {}

// GENERATED FILE - assembled by tools/driver.py from spec/units/*.rs, spec/prelude/*.rs and
// function text extracted from /repo on this run. Do not edit.
#![feature(allocator_api)]
#![allow(unused_imports, dead_code, unused_variables, unused_mut, unused_parens, non_snake_case, unreachable_code)]
use vstd::prelude::*;
use vstd::std_specs::cmp::OrdSpec;
use std::alloc::Allocator;
use std::ops::RangeBounds;
verus! {
// 64-bit target: usize/isize are 8 bytes (assumption, listed in every evidence file)
global size_of usize == 8;
/// Rust allocation invariant: a Vec never holds more than isize::MAX elements (non-ZST element types).
pub broadcast axiom fn axiom_vec_len_isize<T>(v: &Vec<T>)
    ensures #[trigger] v@.len() <= isize::MAX;
}

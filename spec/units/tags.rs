//@ unit tags
//@ serves C10 C04 C05 C02
//@ include prelude/header.rs
verus! {
//@ include prelude/std.rs
//@ include prelude/error.rs
//@ include prelude/runtime_rw.rs
//@ include prelude/value.rs
//@ include prelude/render.rs
//@ include prelude/expr.rs

pub mod liquid_core_model { pub use super::KString; }

/// parser::FilterChain as its users see it (evaluate: unit `chain`)
#[verifier::external_body]
pub struct FilterChain { _p: u8 }
impl FilterChain {
    pub uninterp spec fn denotes(&self, rt: &dyn Runtime) -> Option<VId>;
    #[verifier::external_body]
    pub fn evaluate(&self, runtime: &dyn Runtime) -> (r: Result<ValueCow>)
        ensures r matches Ok(v) ==> self.denotes(runtime) == Some(v.vid()),
                r is Err ==> self.denotes(runtime) is None
    { unimplemented!() }
}
}
//@ include prelude/render_macros.rs
verus! {

// ---------------- raw ----------------
pub struct RawT { pub content: String }
impl RawT {
//@ item crates/lib/src/stdlib/blocks/raw_block.rs :: impl Renderable for RawT::render_to
//@ props C10 C02
//@ sig fn render_to(&self, writer: &mut Sink, _runtime: &dyn Runtime) -> (r: Result<()>)
//@ spec
    requires !old(writer).failed@,
    ensures
        sink_safe(*old(writer), *final(writer), r),                                               // [C10:raw_failed_sink_is_error]
        r is Ok ==> final(writer).log@ == old(writer).log@.push(Ev::Write("{}"@)),                // [C10:raw_writes_exactly_once]
        r is Err ==> final(writer).log@ == old(writer).log@,
//@ end
}

// ---------------- comment ----------------
pub struct Comment;
impl Comment {
//@ item crates/lib/src/stdlib/blocks/comment_block.rs :: impl Renderable for Comment::render_to
//@ props C10 C02
//@ sig fn render_to(&self, _writer: &mut Sink, _runtime: &dyn Runtime) -> (r: Result<()>)
//@ spec
    requires !old(_writer).failed@,
    ensures
        r is Ok, final(_writer).log@ == old(_writer).log@, !final(_writer).failed@,                // [C10:comment_writes_nothing]
//@ end
}

// ---------------- increment / decrement ----------------
pub struct Increment { pub id: KString }
pub struct Decrement { pub id: KString }
impl Increment {
//@ item crates/lib/src/stdlib/tags/increment_tags.rs :: impl Renderable for Increment::render_to
//@ props C10 C04 C02
//@ sig fn render_to(&self, writer: &mut Sink, runtime: &dyn Runtime) -> (r: Result<()>)
//@ spec
    requires !old(writer).failed@,
        runtime.writable(),                                                            // [C02:scope_has_assignment_and_counter_layers]
    ensures
        sink_safe(*old(writer), *final(writer), r),                                               // [C10:increment_failed_sink_is_error]
        r is Ok ==> final(writer).log@ == old(writer).log@.push(Ev::Write("{val}"@)),             // [C10:increment_writes_exactly_once]
        r is Err ==> final(writer).log@ == old(writer).log@,
//@ closure 0 arg_of=and_then params=i
|i: ValueCow| -> (o: Option<i64>)
    ensures o == (match i.scalar_of() { Some(s) => s.int_view(), None => None })
//@ closure 1 arg_of=and_then params=i
|i: ScalarCow| -> (o: Option<i64>) ensures o == i.int_view()
//@ ghost before <<write!(writer, "{val}")>>
    proof { assert(val == runtime.counter_now(self.id)); }   // increment prints the value BEFORE counting up  [C04:increment_prints_then_counts]
//@ end
}
impl Decrement {
//@ item crates/lib/src/stdlib/tags/increment_tags.rs :: impl Renderable for Decrement::render_to
//@ props C10 C04 C02
//@ sig fn render_to(&self, writer: &mut Sink, runtime: &dyn Runtime) -> (r: Result<()>)
//@ spec
    requires !old(writer).failed@,
        runtime.writable(),                                                            // [C02:scope_has_assignment_and_counter_layers]
    ensures
        sink_safe(*old(writer), *final(writer), r),                                               // [C10:decrement_failed_sink_is_error]
        r is Ok ==> final(writer).log@ == old(writer).log@.push(Ev::Write("{val}"@)),             // [C10:decrement_writes_exactly_once]
        r is Err ==> final(writer).log@ == old(writer).log@,
//@ closure 0 arg_of=and_then params=i
|i: ValueCow| -> (o: Option<i64>)
    ensures o == (match i.scalar_of() { Some(s) => s.int_view(), None => None })
//@ closure 1 arg_of=and_then params=i
|i: ScalarCow| -> (o: Option<i64>) ensures o == i.int_view()
//@ ghost before <<write!(writer, "{val}")>>
    proof { assert(val == runtime.counter_now(self.id) - 1); }   // decrement counts down BEFORE printing  [C04:decrement_counts_then_prints]
//@ end
}

// ---------------- assign ----------------
pub struct Assign { pub dst: KString, pub src: FilterChain }
impl Assign {
    #[verifier::external_body]
    fn trace(&self) -> String { unimplemented!() }
//@ item crates/lib/src/stdlib/tags/assign_tag.rs :: impl Renderable for Assign::render_to
//@ props C04 C10 C02
//@ sig fn render_to(&self, _writer: &mut Sink, runtime: &dyn Runtime) -> (r: Result<()>)
//@ spec
    requires
        !old(_writer).failed@,
        runtime.writable(),                                                            // [C02:scope_has_assignment_and_counter_layers]
        // the only global write this tag is entitled to: its destination name, bound to what its source denotes
        forall|v: VId| self.src.denotes(runtime) == Some(v) ==> #[trigger] runtime.may_set_global(self.dst, v),
    ensures
        sink_safe(*old(_writer), *final(_writer), r),
        final(_writer).log@ == old(_writer).log@,                                                  // [C10:assign_writes_nothing]
        r is Err ==> self.src.denotes(runtime) is None,                                            // [C04:assign_fails_only_if_source_fails]
//@ end
}

// ---------------- capture ----------------
impl IntoScalar for BufString {
    open spec fn as_num(self) -> Option<Num> { None }
    open spec fn as_chars(self) -> Option<Seq<char>> { Some(buf_chars(self.log@)) }
}
/// runtime::Template as its callers see it (proved for the real body in unit `sink`)
#[verifier::external_body]
pub struct Template { _p: u8 }
impl Template {
    pub uninterp spec fn rid(&self) -> RId;
    #[verifier::external_body]
    pub fn render_to(&self, writer: &mut Sink, runtime: &dyn Runtime) -> (r: Result<()>)
        requires !old(writer).failed@,                                                      // [C10:no_write_after_failure]
                 runtime.writable(),
        ensures renders_as_child(self.rid(), runtime.ident(), *old(writer), *final(writer), r)
    { unimplemented!() }
}
pub struct Capture { pub id: KString, pub template: Template }
impl Capture {
    #[verifier::external_body]
    fn trace(&self) -> String { unimplemented!() }
//@ item crates/lib/src/stdlib/blocks/capture_block.rs :: impl Renderable for Capture::render_to
//@ props C04 C10 C02
//@ safety C02 C04
//@ sig fn render_to(&self, _writer: &mut Sink, runtime: &dyn Runtime) -> (r: Result<()>)
//@ spec
    requires
        !old(_writer).failed@,
        runtime.writable(),                                                            // [C02:scope_has_assignment_and_counter_layers]
        // the only global write capture is entitled to: its own name (the value is pinned by the ghost assert below)
        forall|v: VId| #[trigger] runtime.may_set_global(self.id, v),
    ensures
        sink_safe(*old(_writer), *final(_writer), r),
        final(_writer).log@ == old(_writer).log@,                                                  // [C10:capture_writes_nothing_to_the_output]
//@ edit <<let mut captured = Vec::new();>> => <<let mut captured = Sink::buffer();>> why: the private Vec<u8> buffer is a sink that never fails (stand-in constructor)
//@ edit <<String::from_utf8(captured).expect("render only writes UTF-8")>> => <<captured.into_string()>> why: the buffer's text (stand-in for the UTF-8 conversion; its expect() is the UTF-8 claim of C02, not decided here)
//@ ghost before <<runtime.set_global(self.id.clone(), Value::scalar(output));>>
    proof { assert(output.log@ == seq![Ev::Child(self.template.rid(), runtime.ident())]); }   // capture binds exactly the text its body printed, rendered once  [C04:capture_binds_the_text_of_its_body]
//@ closure 0 arg_of=trace_with params=
|| -> (k: KString)
//@ end
}

// ---------------- ifchanged ----------------
#[verifier::external_body]
pub struct ChangedRegister { _p: u8 }
impl RegisterDefault for ChangedRegister { }
impl ChangedRegister {
    /// compares with the text remembered from the previous call (state behind RefCell: not modelled)
    #[verifier::external_body]
    pub fn has_changed(&mut self, rendered: &BufString) -> bool { unimplemented!() }
}
pub struct IfChanged { pub if_changed: Template }
impl IfChanged {
    #[verifier::external_body]
    fn trace(&self) -> String { unimplemented!() }
//@ item crates/lib/src/stdlib/blocks/ifchanged_block.rs :: impl Renderable for IfChanged::render_to
//@ props C10 C02
//@ sig fn render_to(&self, writer: &mut Sink, runtime: &dyn Runtime) -> (r: Result<()>)
//@ spec
    requires !old(writer).failed@,
        runtime.writable(),                                                            // [C02:scope_has_assignment_and_counter_layers]
    ensures
        sink_safe(*old(writer), *final(writer), r),                                                // [C10:ifchanged_failed_sink_is_error]
        // the body is rendered into a private buffer; the output receives at most one write of that text
        r is Ok ==> (final(writer).log@ == old(writer).log@ || final(writer).log@ == old(writer).log@.push(Ev::Write("{rendered}"@))),   // [C10:ifchanged_writes_at_most_once]
        r is Err ==> final(writer).log@ == old(writer).log@,
//@ edit <<let mut rendered = Vec::new();>> => <<let mut rendered = Sink::buffer();>> why: the private Vec<u8> buffer is a sink that never fails (stand-in constructor)
//@ edit <<String::from_utf8(rendered).expect("render only writes UTF-8")>> => <<rendered.into_string()>> why: the buffer's text (stand-in for the UTF-8 conversion)
//@ closure 0 arg_of=trace_with params=
|| -> (k: KString)
//@ end
}

// ---------------- cycle ----------------
/// HashMap<String, usize> of cycle positions (stand-in; state behind RefCell is not modelled: `entry().or_insert()` hands out
/// an arbitrary stored position, assumed <= isize::MAX because every stored position is 0 or the result of `% len`)
#[verifier::external_body]
pub struct CycleMap { _p: u8 }
#[verifier::external_body]
pub struct CycleEntry<'a> { _p: &'a mut u8 }
impl CycleMap {
    #[verifier::external_body]
    pub fn entry(&mut self, k: String) -> (e: CycleEntry<'_>) { unimplemented!() }
}
impl<'a> CycleEntry<'a> {
    #[verifier::external_body]
    pub fn or_insert(self, v: usize) -> (r: &'a mut usize) ensures *r <= isize::MAX as usize { unimplemented!() }
}
impl Error {
    #[verifier::external_body]
    pub fn with_msg(msg: &'static str) -> Error { unimplemented!() }
    #[verifier::external_body]
    pub fn context<K, V>(self, key: K, value: V) -> Error { unimplemented!() }
}
pub struct CycleRegister { pub cycles: CycleMap }
impl RegisterDefault for CycleRegister { }
impl CycleRegister {
//@ item crates/lib/src/stdlib/tags/cycle_tag.rs :: impl CycleRegister::cycle
//@ props C02 C10
//@ sig fn cycle<'e>(&mut self, name: &str, values: &'e [Expression]) -> (r: Result<&'e Expression>)
//@ spec
    ensures
        values@.len() == 0 ==> r is Err,                                                   // [C02:cycle_without_values_is_an_error]
        r matches Ok(e) ==> (exists|k: int| 0 <= k < values@.len() && *e == #[trigger] values@[k]),   // [C02:cycle_picks_one_of_its_values]
//@ end
//@ item crates/lib/src/stdlib/tags/cycle_tag.rs :: impl CycleRegister::cycle_index
//@ props C02
//@ sig fn cycle_index(&mut self, name: &str, max: usize) -> (r: usize)
//@ spec
    requires max > 0,       // call site: cycle() after its emptiness check
//@ end
}
pub struct Cycle { pub name: String, pub values: Vec<Expression> }
impl Cycle {
    #[verifier::external_body]
    fn trace(&self) -> String { unimplemented!() }
//@ item crates/lib/src/stdlib/tags/cycle_tag.rs :: impl Renderable for Cycle::render_to
//@ props C10 C02
//@ sig fn render_to(&self, writer: &mut Sink, runtime: &dyn Runtime) -> (r: Result<()>)
//@ spec
    requires !old(writer).failed@,
        runtime.writable(),                                                            // [C02:scope_has_assignment_and_counter_layers]
    ensures
        sink_safe(*old(writer), *final(writer), r),                                               // [C10:cycle_failed_sink_is_error]
        r is Ok ==> final(writer).log@ == old(writer).log@.push(Ev::Write("{}"@)),                // [C10:cycle_writes_exactly_once]
        r is Err ==> final(writer).log@ == old(writer).log@,
//@ closure 0 arg_of=trace_with params=
|| -> (k: KString)
//@ closure 1 arg_of=trace_with params=
|| -> (k: KString)
//@ end
}

// ---------------- break / continue and the interrupt register ----------------
//@ item crates/core/src/runtime/runtime.rs :: enum Interrupt
//@ kind enum
//@ vis pub
//@ end
//@ item crates/core/src/runtime/runtime.rs :: struct InterruptRegister
//@ kind struct
//@ vis pub
//@ end
impl RegisterDefault for InterruptRegister { }
impl InterruptRegister {
//@ item crates/core/src/runtime/runtime.rs :: impl InterruptRegister::interrupted
//@ props C05 C02
//@ sig fn interrupted(&self) -> (r: bool)
//@ spec
    ensures r == self.interrupt is Some,                                  // [C05:interrupted_iff_pending]
//@ end
//@ item crates/core/src/runtime/runtime.rs :: impl InterruptRegister::set
//@ props C05 C02
//@ sig fn set(&mut self, interrupt: Interrupt)
//@ spec
    ensures final(self).interrupt == Some(interrupt),                     // [C05:set_records_the_interrupt]
//@ end
//@ item crates/core/src/runtime/runtime.rs :: impl InterruptRegister::reset
//@ props C05 C02
//@ sig fn reset(&mut self) -> (r: Option<Interrupt>)
//@ spec
    ensures r == old(self).interrupt, final(self).interrupt is None,      // [C05:reset_returns_and_clears]
//@ end
}

pub struct Break;
pub struct Continue;
impl Break {
//@ item crates/lib/src/stdlib/tags/interrupt_tags.rs :: impl Renderable for Break::render_to
//@ props C10 C05 C02
//@ sig fn render_to(&self, _writer: &mut Sink, runtime: &dyn Runtime) -> (r: Result<()>)
//@ spec
    requires !old(_writer).failed@,
    ensures r is Ok, final(_writer).log@ == old(_writer).log@, final(_writer).failed@ == old(_writer).failed@,      // [C10:break_writes_nothing]
//@ end
}
impl Continue {
//@ item crates/lib/src/stdlib/tags/interrupt_tags.rs :: impl Renderable for Continue::render_to
//@ props C10 C05 C02
//@ sig fn render_to(&self, _writer: &mut Sink, runtime: &dyn Runtime) -> (r: Result<()>)
//@ spec
    requires !old(_writer).failed@,
    ensures r is Ok, final(_writer).log@ == old(_writer).log@, final(_writer).failed@ == old(_writer).failed@,      // [C10:continue_writes_nothing]
//@ end
}

} // verus!
fn main() {}

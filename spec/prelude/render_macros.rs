// `write!` / `format!` inside extracted bodies resolve to these (macro shadowing, the body text is not edited):
// one write! = one sink_write with the format string as the chunk; format! = an opaque String.
macro_rules! write {
    ($w:expr, $fmt:literal $(, $arg:expr)* $(,)?) => { sink_write($w, $fmt) };
}
macro_rules! format {
    ($($arg:tt)*) => { opaque_string() };
}

//@ unit math
//@ serves C15 C02
// Kani twin of unit `math`: the SAME function bodies extracted from /repo (verbatim, no closure annotations needed), compiled
// against an EXECUTABLE stand-in environment, with the contract clauses as assertions over full-domain symbolic inputs.
// Loop-free => every harness is a complete proof for all i64 / f64 operands; shape-independent (no anchors inside bodies).
#![allow(dead_code, unused_variables, unused_imports, clippy::all)]
use std::convert::TryInto;

// ---------------- executable stand-in environment (trusted, mirrors spec/prelude/value.rs) ----------------
#[derive(Debug)]
pub struct Error;
pub type Result<T> = core::result::Result<T, Error>;
pub fn invalid_input(_cause: &str) -> Error { Error }
pub fn invalid_argument(_argument: &str, _cause: &str) -> Error { Error }
pub trait Runtime {}
pub struct Rt;
impl Runtime for Rt {}

/// a scalar seen through its integer and float views (any combination: the contracts only speak about the views)
#[derive(Clone, Copy)]
pub struct ScalarCow { pub int: Option<i64>, pub flt: Option<f64> }
impl ScalarCow {
    pub fn to_integer(&self) -> Option<i64> { self.int }
    pub fn to_float(&self) -> Option<f64> { self.flt }
}
pub trait ValueView { fn as_scalar(&self) -> Option<ScalarCow>; }
#[derive(Clone, Copy)]
pub struct V { pub sc: Option<ScalarCow> }
impl ValueView for V { fn as_scalar(&self) -> Option<ScalarCow> { self.sc } }
impl V { pub fn as_scalar(&self) -> Option<ScalarCow> { self.sc } }

#[derive(Clone, Copy, Debug, PartialEq)]
pub enum Num { Int(i64), Flt(f64) }
#[derive(Debug)]
pub struct Value(pub Num);
pub trait IntoNum { fn into_num(self) -> Num; }
impl IntoNum for i64 { fn into_num(self) -> Num { Num::Int(self) } }
impl IntoNum for f64 { fn into_num(self) -> Num { Num::Flt(self) } }
impl Value { pub fn scalar<T: IntoNum>(t: T) -> Value { Value(t.into_num()) } }

macro_rules! one_arg_filter {
    ($args:ident, $eargs:ident, $filter:ident, $field:ident) => {
        pub struct $args { pub v: Option<V> }          // None: evaluating the argument expression fails
        pub struct $eargs { pub $field: V }
        impl $args { pub fn evaluate(&self, _rt: &dyn Runtime) -> Result<$eargs> { match self.v { Some(v) => Ok($eargs { $field: v }), None => Err(Error) } } }
        pub struct $filter { pub args: $args }
    };
}
one_arg_filter!(AtLeastArgs, EvaluatedAtLeastArgs, AtLeastFilter, min);
one_arg_filter!(AtMostArgs, EvaluatedAtMostArgs, AtMostFilter, max);
one_arg_filter!(PlusArgs, EvaluatedPlusArgs, PlusFilter, operand);
one_arg_filter!(MinusArgs, EvaluatedMinusArgs, MinusFilter, operand);
one_arg_filter!(TimesArgs, EvaluatedTimesArgs, TimesFilter, operand);
one_arg_filter!(DividedByArgs, EvaluatedDividedByArgs, DividedByFilter, operand);
one_arg_filter!(ModuloArgs, EvaluatedModuloArgs, ModuloFilter, operand);
pub struct AbsFilter;
pub struct FloorFilter;
pub struct CeilFilter;
pub struct RoundArgs { pub v: Option<Option<i64>> }
pub struct EvaluatedRoundArgs { pub decimal_places: Option<i64> }
impl RoundArgs { pub fn evaluate(&self, _rt: &dyn Runtime) -> Result<EvaluatedRoundArgs> { match self.v { Some(d) => Ok(EvaluatedRoundArgs { decimal_places: d }), None => Err(Error) } } }
pub struct RoundFilter { pub args: RoundArgs }

// ---------------- the function bodies, extracted from /repo on this run ----------------
impl AbsFilter {
//@ item crates/lib/src/stdlib/filters/math.rs :: impl Filter for AbsFilter::evaluate
//@ sig pub fn evaluate(&self, input: &dyn ValueView, _runtime: &dyn Runtime) -> Result<Value>
//@ end
}
impl AtLeastFilter {
//@ item crates/lib/src/stdlib/filters/math.rs :: impl Filter for AtLeastFilter::evaluate
//@ sig pub fn evaluate(&self, input: &dyn ValueView, runtime: &dyn Runtime) -> Result<Value>
//@ end
}
impl AtMostFilter {
//@ item crates/lib/src/stdlib/filters/math.rs :: impl Filter for AtMostFilter::evaluate
//@ sig pub fn evaluate(&self, input: &dyn ValueView, runtime: &dyn Runtime) -> Result<Value>
//@ end
}
impl PlusFilter {
//@ item crates/lib/src/stdlib/filters/math.rs :: impl Filter for PlusFilter::evaluate
//@ sig pub fn evaluate(&self, input: &dyn ValueView, runtime: &dyn Runtime) -> Result<Value>
//@ end
}
impl MinusFilter {
//@ item crates/lib/src/stdlib/filters/math.rs :: impl Filter for MinusFilter::evaluate
//@ sig pub fn evaluate(&self, input: &dyn ValueView, runtime: &dyn Runtime) -> Result<Value>
//@ end
}
impl TimesFilter {
//@ item crates/lib/src/stdlib/filters/math.rs :: impl Filter for TimesFilter::evaluate
//@ sig pub fn evaluate(&self, input: &dyn ValueView, runtime: &dyn Runtime) -> Result<Value>
//@ end
}
impl DividedByFilter {
//@ item crates/lib/src/stdlib/filters/math.rs :: impl Filter for DividedByFilter::evaluate
//@ sig pub fn evaluate(&self, input: &dyn ValueView, runtime: &dyn Runtime) -> Result<Value>
//@ end
}
impl ModuloFilter {
//@ item crates/lib/src/stdlib/filters/math.rs :: impl Filter for ModuloFilter::evaluate
//@ sig pub fn evaluate(&self, input: &dyn ValueView, runtime: &dyn Runtime) -> Result<Value>
//@ end
}
impl FloorFilter {
//@ item crates/lib/src/stdlib/filters/math.rs :: impl Filter for FloorFilter::evaluate
//@ sig pub fn evaluate(&self, input: &dyn ValueView, _runtime: &dyn Runtime) -> Result<Value>
//@ end
}
impl CeilFilter {
//@ item crates/lib/src/stdlib/filters/math.rs :: impl Filter for CeilFilter::evaluate
//@ sig pub fn evaluate(&self, input: &dyn ValueView, _runtime: &dyn Runtime) -> Result<Value>
//@ end
}
impl RoundFilter {
//@ item crates/lib/src/stdlib/filters/math.rs :: impl Filter for RoundFilter::evaluate
//@ sig pub fn evaluate(&self, input: &dyn ValueView, runtime: &dyn Runtime) -> Result<Value>
//@ end
}

// ---------------- harnesses: the contract clauses of C15 as assertions, inputs fully symbolic ----------------
#[cfg(kani)]
mod proofs {
    use super::*;
    /// float views are finite: inf - inf, 0/0 etc. produce NaN, which Kani's float checks report although IEEE NaN results are not
    /// the clauses' subject (the clauses only say WHERE a float result may come from)
    fn any_finite() -> f64 { let x: f64 = kani::any(); kani::assume(x.is_finite()); x }
    fn any_scalar() -> ScalarCow {
        ScalarCow { int: if kani::any() { Some(kani::any()) } else { None }, flt: if kani::any() { Some(any_finite()) } else { None } }
    }
    /// BOUNDED operand domain for the two division harnesses (64-bit dividers are intractable for the SAT back end):
    /// |x| <= 2^7 or one of the four 64-bit boundary values
    fn small_or_boundary() -> i64 {
        let k: u8 = kani::any();
        let s: i8 = kani::any();
        match k % 5 { 0 => i64::MIN, 1 => i64::MIN + 1, 2 => i64::MAX, 3 => i64::MAX - 1, _ => s as i64 }
    }
    /// no float view: f64 `/` and `%` (fmod) circuits are intractable; the float path of divided_by / modulo is left to Verus
    fn bounded_scalar() -> ScalarCow {
        ScalarCow { int: if kani::any() { Some(small_or_boundary()) } else { None }, flt: None }
    }
    fn bounded_v() -> V { V { sc: if kani::any() { Some(bounded_scalar()) } else { None } } }
    fn any_v() -> V { V { sc: if kani::any() { Some(any_scalar()) } else { None } } }
    fn fits(x: i128) -> bool { (i64::MIN as i128) <= x && x <= (i64::MAX as i128) }
    fn ints(a: &V, b: &Option<V>) -> Option<(i64, i64)> {
        match (a.sc, b) { (Some(x), Some(V { sc: Some(y) })) => match (x.int, y.int) { (Some(i), Some(o)) => Some((i, o)), _ => None }, _ => None }
    }
    fn flts(a: &V, b: &Option<V>) -> bool {
        match (a.sc, b) { (Some(x), Some(V { sc: Some(y) })) => x.flt.is_some() && y.flt.is_some(), _ => false }
    }
    /// exact: Some(m) = the mathematical result, None = zero divisor
    fn check_binary(r: &Result<Value>, input: &V, arg: &Option<V>, exact: impl Fn(i128, i128) -> Option<i128>) {
        let iv = ints(input, arg);
        // an integer result is the exact mathematical result of the two integer views
        if let Ok(Value(Num::Int(k))) = r {
            match iv { Some((i, o)) => assert!(exact(i as i128, o as i128) == Some(*k as i128)), None => assert!(false) }
        }
        if let Some((i, o)) = iv {
            match exact(i as i128, o as i128) {
                // whenever the result fits in 64 bits the filter returns it
                Some(m) if fits(m) => assert!(matches!(r, Ok(Value(Num::Int(k))) if *k as i128 == m)),
                // otherwise an error or a float, never a wrapped integer
                Some(_) => assert!(!matches!(r, Ok(Value(Num::Int(_))))),
                // division by zero is an error
                None => assert!(r.is_err()),
            }
        }
        // a float result only arises from the float views of both operands
        if let Ok(Value(Num::Flt(_))) = r { assert!(flts(input, arg)); }
    }
    // the truncated quotient / remainder are taken from the machine's own i64 `/` and `%` (wide division is intractable for the
    // SAT back end); that these satisfy dividend = q*d + r, |r| < |d| is lemma_trunc of the Verus unit `math`
    fn tdiv(a: i128, b: i128) -> i128 { if a == i64::MIN as i128 && b == -1 { -(i64::MIN as i128) } else { ((a as i64) / (b as i64)) as i128 } }
    fn trem(a: i128, b: i128) -> i128 { if b == -1 { 0 } else { ((a as i64) % (b as i64)) as i128 } }
    macro_rules! binary_harness {
        ($name:ident, $filter:ident, $args:ident, $exact:expr) => { binary_harness!($name, $filter, $args, $exact, any_v); };
        ($name:ident, $filter:ident, $args:ident, $exact:expr, $gen:ident) => {
            #[kani::proof]
            fn $name() {
                let input = $gen();
                let arg: Option<V> = if kani::any() { Some($gen()) } else { None };
                let f = $filter { args: $args { v: arg } };
                let r = f.evaluate(&input, &Rt);
                check_binary(&r, &input, &arg, $exact);
            }
        };
    }
    binary_harness!(c15_plus, PlusFilter, PlusArgs, |i, o| Some(i + o));
    binary_harness!(c15_minus, MinusFilter, MinusArgs, |i, o| Some(i - o));
    binary_harness!(c15_times, TimesFilter, TimesArgs, |i, o| Some(i * o));
    binary_harness!(c15_at_least, AtLeastFilter, AtLeastArgs, |i, o| Some(if i >= o { i } else { o }));
    binary_harness!(c15_at_most, AtMostFilter, AtMostArgs, |i, o| Some(if i <= o { i } else { o }));
    binary_harness!(c15_divided_by_bounded, DividedByFilter, DividedByArgs, |i, o| if o == 0 { None } else { Some(tdiv(i, o)) }, bounded_v);
    // dividend = quotient x divisor + remainder, |remainder| < |divisor|, remainder has the dividend's sign
    binary_harness!(c15_modulo_bounded, ModuloFilter, ModuloArgs, |i, o| if o == 0 { None } else { Some(trem(i, o)) }, bounded_v);

    #[kani::proof]
    fn c15_abs() {
        let input = any_v();
        let r = AbsFilter.evaluate(&input, &Rt);
        let iv = input.sc.and_then(|s| s.int);
        if let Ok(Value(Num::Int(k))) = r {
            match iv { Some(i) => assert!((k as i128) == (i as i128).abs()), None => assert!(false) }
        }
        if let Some(i) = iv {
            if i != i64::MIN { assert!(matches!(r, Ok(Value(Num::Int(k))) if (k as i128) == (i as i128).abs())); }
            else { assert!(!matches!(r, Ok(Value(Num::Int(_))))); }
        }
    }

    /// "ceil, floor and round return the neighbouring integer in the documented direction (ties away from zero) for every
    /// float within the 64-bit range"  (|x| < 2^62 keeps x+1 exact enough to state the neighbour relation in f64)
    fn in_range(x: f64) -> bool { x.is_finite() && x > -9.2e18 && x < 9.2e18 }
    const EXACT: f64 = 4503599627370496.0; // 2^52: below it x +- 1 is exact, from it on every f64 is an integer
    #[kani::proof]
    fn c15_floor() {
        let x: f64 = kani::any();
        kani::assume(in_range(x));
        let input = V { sc: Some(ScalarCow { int: None, flt: Some(x) }) };
        match FloorFilter.evaluate(&input, &Rt) {
            Ok(Value(Num::Int(k))) => { let kf = k as f64; if x.abs() < EXACT { assert!(kf <= x && x < kf + 1.0); } else { assert!(kf == x); } }
            _ => assert!(false),
        }
    }
    #[kani::proof]
    fn c15_ceil() {
        let x: f64 = kani::any();
        kani::assume(in_range(x));
        let input = V { sc: Some(ScalarCow { int: None, flt: Some(x) }) };
        match CeilFilter.evaluate(&input, &Rt) {
            Ok(Value(Num::Int(k))) => { let kf = k as f64; if x.abs() < EXACT { assert!(kf - 1.0 < x && x <= kf); } else { assert!(kf == x); } }
            _ => assert!(false),
        }
    }
    #[kani::proof]
    fn c15_round() {
        let x: f64 = kani::any();
        kani::assume(in_range(x));
        let places: Option<i64> = if kani::any() { let p: i64 = kani::any(); kani::assume(p <= 0); Some(p) } else { None };
        let input = V { sc: Some(ScalarCow { int: None, flt: Some(x) }) };
        let f = RoundFilter { args: RoundArgs { v: Some(places) } };
        match f.evaluate(&input, &Rt) {
            // nearest integer, ties away from zero
            Ok(Value(Num::Int(k))) => {
                let kf = k as f64;
                if x.abs() < EXACT { let d = x - kf; assert!(-0.5 <= d && d <= 0.5); if d == -0.5 { assert!(x > 0.0); } if d == 0.5 { assert!(x < 0.0); } } else { assert!(kf == x); }
            }
            _ => assert!(false),
        }
    }
}

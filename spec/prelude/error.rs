// ---------------- assumed environment: errors and opaque strings (stand-ins; trusted) ----------------
#[verifier::external_body]
pub struct Error { _p: u8 }
impl core::fmt::Debug for Error {
    #[verifier::external_body]
    fn fmt(&self, f: &mut core::fmt::Formatter<'_>) -> core::fmt::Result { unimplemented!() }
}
pub type Result<T> = core::result::Result<T, Error>;
impl Error {
    #[verifier::external_body]
    pub fn into_err<T>(self) -> (r: Result<T>) ensures r is Err { unimplemented!() }
}
#[verifier::external_body]
pub struct IoError { _p: u8 }
#[verifier::external_body]
pub struct KString { _p: u8 }
impl KString {
    pub uninterp spec fn view(&self) -> Seq<char>;
    #[verifier::external_body]
    pub fn as_str(&self) -> (r: &str) ensures r@ == self.view() { unimplemented!() }
}
impl core::ops::Deref for KString {
    type Target = str;
    #[verifier::external_body]
    fn deref(&self) -> (r: &str) ensures r@ == self.view() { unimplemented!() }
}
impl From<String> for KString {
    #[verifier::external_body]
    fn from(s: String) -> (r: KString) { unimplemented!() }
}
#[verifier::external_body]
pub fn opaque_string() -> String { unimplemented!() }
#[verifier::external_body]
pub fn invalid_input(cause: &str) -> Error { unimplemented!() }
#[verifier::external_body]
pub fn invalid_argument(argument: &str, cause: &str) -> Error { unimplemented!() }

use vstd::prelude::*;
verus! {

#[verifier::external_body]
pub struct Error { _p: u8 }
pub type Result<T> = core::result::Result<T, Error>;

pub trait Runtime { }

pub struct BinaryCondition { pub v: bool }
pub struct ExistenceCondition { pub v: bool }
impl BinaryCondition {
    pub open spec fn sem(&self) -> bool { self.v }
    pub fn evaluate(&self, runtime: &dyn Runtime) -> (r: Result<bool>) ensures r matches Ok(b) ==> b == self.sem() { Ok(self.v) }
}
impl ExistenceCondition {
    pub open spec fn sem(&self) -> bool { self.v }
    pub fn evaluate(&self, runtime: &dyn Runtime) -> (r: Result<bool>) ensures r matches Ok(b) ==> b == self.sem() { Ok(self.v) }
}

enum Condition {
    Binary(BinaryCondition),
    Existence(ExistenceCondition),
    Conjunction(Box<Condition>, Box<Condition>),
    Disjunction(Box<Condition>, Box<Condition>),
}

impl Condition {
    spec fn sem(&self) -> bool
        decreases self
    {
        match *self {
            Condition::Binary(c) => c.sem(),
            Condition::Existence(c) => c.sem(),
            Condition::Conjunction(left, right) => left.sem() && right.sem(),
            Condition::Disjunction(left, right) => left.sem() || right.sem(),
        }
    }

    pub(crate) fn evaluate(&self, runtime: &dyn Runtime) -> (r: Result<bool>)
        ensures r matches Ok(b) ==> b == self.sem(),
        decreases self,
    {
        match *self {
            Condition::Binary(ref c) => c.evaluate(runtime),
            Condition::Existence(ref c) => c.evaluate(runtime),
            Condition::Conjunction(ref left, ref right) => {
                Ok(left.evaluate(runtime)? && right.evaluate(runtime)?)
            }
            Condition::Disjunction(ref left, ref right) => {
                Ok(left.evaluate(runtime)? || right.evaluate(runtime)?)
            }
        }
    }
}

} // verus!
fn main() {}

//@ unit toplevel
//@ serves C10 C09 C02
//@ include prelude/header.rs
verus! {
//@ include prelude/error.rs
//@ include prelude/runtime.rs
//@ include prelude/render.rs

// ---------------- assumed environment of src/template.rs (stand-ins; trusted) ----------------
pub trait ObjectView { }
pub trait PartialStore { }
/// the runtime `RuntimeBuilder::...build()` creates for ONE render call: its identity is a function of the caller's
/// data and the partial store only (layer order and emptiness of the fresh layers: unit `stack`, RuntimeBuilder::build)
pub uninterp spec fn fresh_runtime(globals: &dyn ObjectView, partials: Option<&dyn PartialStore>) -> RtId;
pub struct BuiltRuntime { pub id: Ghost<RtId>, pub regs: Registers }
impl Runtime for BuiltRuntime {
    open spec fn ident(&self) -> RtId { self.id@ }
    /// RuntimeBuilder::build yields a global layer over the caller's data over a counter layer (unit `stack`:
    /// `builder_masks_the_unreachable_base_cases`)
    open spec fn writable(&self) -> bool { true }
    #[verifier::external_body]
    fn registers(&self) -> (r: &Registers) { unimplemented!() }
}
pub struct RuntimeBuilder<'g, 'p> { pub globals: Option<&'g dyn ObjectView>, pub partials: Option<&'p dyn PartialStore> }
impl<'g, 'p> RuntimeBuilder<'g, 'p> {
    #[verifier::external_body]
    pub fn new() -> (r: RuntimeBuilder<'static, 'static>) ensures r.globals is None, r.partials is None { unimplemented!() }
    #[verifier::external_body]
    pub fn set_globals<'n>(self, values: &'n dyn ObjectView) -> (r: RuntimeBuilder<'n, 'p>) ensures r.globals == Some(values), r.partials == self.partials { unimplemented!() }
    #[verifier::external_body]
    pub fn set_partials<'n>(self, values: &'n dyn PartialStore) -> (r: RuntimeBuilder<'g, 'n>) ensures r.partials == Some(values), r.globals == self.globals { unimplemented!() }
    #[verifier::external_body]
    pub fn build(self) -> (r: BuiltRuntime)
        requires self.globals is Some
        ensures r.id@ == fresh_runtime(self.globals.unwrap(), self.partials)
    { unimplemented!() }
}
pub mod runtime {
    pub use super::RuntimeBuilder;
    /// liquid_core::runtime::Template as its callers see it (proved for the real body in unit `sink`)
    #[verifier::external_body]
    pub struct Template { _p: u8 }
}
impl runtime::Template {
    pub uninterp spec fn rid(&self) -> RId;
    #[verifier::external_body]
    pub fn render_to(&self, writer: &mut Sink, runtime: &dyn Runtime) -> (r: Result<()>)
        requires !old(writer).failed@,                                                      // [C10:no_write_after_failure]
                 runtime.writable(),
        ensures renders_as_child(self.rid(), runtime.ident(), *old(writer), *final(writer), r)
    { unimplemented!() }
}
/// Arc<dyn PartialStore + Send + Sync> (stand-in)
pub struct PartialsArc { pub p: Box<dyn PartialStore> }
impl PartialsArc {
    pub open spec fn view(&self) -> &dyn PartialStore { &*self.p }
    #[verifier::external_body]
    pub fn as_ref(&self) -> (r: &dyn PartialStore) ensures r == self.view() { unimplemented!() }
}
pub struct Template { pub template: runtime::Template, pub partials: Option<PartialsArc> }
pub open spec fn opt_partials(t: &Template) -> Option<&dyn PartialStore> { match t.partials { Some(p) => Some(p.view()), None => None } }
/// `convert_buffer`: the bytes the buffer holds, as a String (its from_utf8 expect() is the UTF-8 claim of C02, not decided here)
#[verifier::external_body]
fn convert_buffer(buffer: Sink) -> (r: String) { unimplemented!() }

impl Template {
//@ item src/template.rs :: impl Template::render_to
//@ props C10 C09 C02
//@ sig pub fn render_to(&self, writer: &mut Sink, globals: &dyn ObjectView) -> (r: Result<()>)
//@ spec
    requires !old(writer).failed@,
    ensures
        sink_safe(*old(writer), *final(writer), r),                                                   // [C10:toplevel_failed_sink_is_error]
        // the caller's sink itself receives the template, rendered once, in a runtime built for this call from the data and
        // the partial store alone (nothing else flows in: no state survives from another render)
        r is Ok ==> final(writer).log@ == old(writer).log@.push(Ev::Child(self.template.rid(), fresh_runtime(globals, opt_partials(self)))),   // [C10:streaming_render_writes_the_template_to_the_callers_sink] [C09:each_render_builds_its_own_runtime]
        r is Err ==> (final(writer).log@ == old(writer).log@ || final(writer).log@ == old(writer).log@.push(Ev::Partial(self.template.rid(), fresh_runtime(globals, opt_partials(self))))),
//@ end
//@ item src/template.rs :: impl Template::render
//@ props C10 C02
//@ sig pub fn render(&self, globals: &dyn ObjectView) -> (r: Result<String>)
//@ spec
    ensures true,
//@ edit <<Vec::with_capacity(BEST_GUESS)>> => <<Sink::buffer()>> why: the Vec<u8> output buffer is a sink that never fails (stand-in constructor)
//@ ghost before <<Ok(convert_buffer(data))>>
    proof { assert(data.log@ == seq![Ev::Child(self.template.rid(), fresh_runtime(globals, opt_partials(self)))]); }   // the buffering render IS the streaming render into a buffer  [C10:buffered_render_is_streaming_into_a_buffer]
//@ end
}

} // verus!
fn main() {}

#!/bin/sh
# run_seeds.sh [seed-dir ...] : apply each seeded change to /repo, run the check of the property it breaks, undo.
# Refuses to run if /repo has local modifications.
D="$(cd "$(dirname "$0")/.." && pwd)"
cd /repo && [ -z "$(git status --porcelain --untracked-files=no)" ] || { echo "/repo is dirty"; exit 9; }
[ $# -gt 0 ] || set -- "$D"/seeded/*/
# evidence files are rewritten by every check run: keep the unchanged-tree evidence and put it back at the end
rm -rf "$D/work/evidence.keep" && cp -r "$D/evidence" "$D/work/evidence.keep"
trap 'rm -rf "$D/evidence" && mv "$D/work/evidence.keep" "$D/evidence"' EXIT
for sd in "$@"; do
  sd="${sd%/}"; name="$(basename "$sd")"; prop="${name%%-*}"; prop="$(echo "$prop" | sed "s/r[0-9]*$//")"
  git -C /repo apply "$sd/patch.diff" || { echo "$name: patch does not apply"; continue; }
  out="$(cd "$D" && ./check "$prop" --tier quick 2>&1)"; rc=$?
  git -C /repo checkout -- .
  echo "== $name: rc=$rc"
  echo "$out" | grep -E "^(VIOLATION|UNDECIDED|OK|KNOWN)" | cut -c1-260 | head -4
done

//@ unit contains
//@ serves C06 C02
//@ include prelude/header.rs
use vstd::std_specs::iter::IteratorSpecImpl;
verus! {
//@ include prelude/error.rs
//@ include prelude/runtime.rs
//@ include prelude/value.rs
//@ include prelude/expr.rs

#[verifier::external_body]
pub fn unexpected_value_error(expected: &str, actual: Option<&'static str>) -> Error { unimplemented!() }

/// `str::contains(&str)`: some window of the haystack is the needle
pub open spec fn seq_has(h: Seq<char>, n: Seq<char>) -> bool {
    exists|i: int| 0 <= i && i + n.len() <= h.len() && #[trigger] h.subrange(i, i + n.len()) == n
}
impl KStringCow {
    #[verifier::external_body]
    pub fn as_str(&self) -> (r: &str) ensures r@ == self.chars_view() { unimplemented!() }
    #[verifier::external_body]
    pub fn contains(&self, pat: &str) -> (r: bool) ensures r == seq_has(self.chars_view(), pat@) { unimplemented!() }
}

/// `ArrayView::values()` as an iterator of element views (the real item type is `&'a dyn ValueView`; the stand-in says 'static,
/// lifetimes play no part in the obligations)
impl ValIter {
    pub uninterp spec fn items(&self) -> Seq<&'static dyn ValueView>;
}
pub broadcast axiom fn axiom_valiter_items(it: &ValIter)
    ensures #[trigger] it.items().len() == it.rest().len(),
            forall|j: int| 0 <= j < it.rest().len() ==> (#[trigger] it.items()[j]).vid_of() == it.rest()[j];
impl Iterator for ValIter {
    type Item = &'static dyn ValueView;
    #[verifier::external_body]
    fn next(&mut self) -> (r: Option<&'static dyn ValueView>)
        ensures
            old(self).items().len() == 0 ==> r is None && final(self).items() == old(self).items(),
            old(self).items().len() > 0 ==> r == Some(old(self).items()[0]) && final(self).items() == old(self).items().drop_first(),
    { unimplemented!() }
}
impl IteratorSpecImpl for ValIter {
    open spec fn obeys_prophetic_iter_laws(&self) -> bool { true }
    open spec fn remaining(&self) -> Seq<&'static dyn ValueView> { self.items() }
    open spec fn will_return_none(&self) -> bool { true }
    open spec fn decrease(&self) -> Option<nat> { Some(self.items().len()) }
    open spec fn peek(&self, i: int) -> Option<&'static dyn ValueView> { if 0 <= i < self.items().len() { Some(self.items()[i]) } else { None } }
}


/// `contains` on value identities, as the property states it: a scalar on the left is searched as text; an object
/// is asked for the key (only a scalar can be a key); an array contains `b` iff some element EQUALS b under the value
/// model's equality; anything else cannot contain
pub open spec fn contains_sem(a: &dyn ValueView, b: &dyn ValueView) -> Option<bool> {
    if a.scalar_of() is Some {
        Some(seq_has(a.scalar_of()->0.text().chars_view(), b.kstr_of().chars_view()))
    } else if a.object_size_of() is Some {
        Some(match b.scalar_of() { Some(s) => obj_has_key(a.vid_of(), s.text().chars_view()), None => false })
    } else if a.array_of() is Some {
        Some(exists|j: int| 0 <= j < a.array_of()->0.len() && veq(#[trigger] a.array_of()->0[j], b.vid_of()))
    } else { None }
}

//@ item crates/lib/src/stdlib/blocks/if_block.rs :: fn contains_check
//@ props C06 C02
//@ sig #[verifier::loop_isolation(false)] fn contains_check(a: &dyn ValueView, b: &dyn ValueView) -> (r: Result<bool>)
//@ spec
    ensures
        // scalar on the left: text containment; object: key membership (only a scalar names a key); array: some element
        // EQUALS b under the value model's equality; anything else cannot contain - an error, not false
        r matches Ok(x) ==> contains_sem(a, b) == Some(x),          // [C06:contains_agrees_with_value_model]
        r is Err ==> contains_sem(a, b) is None,                    // [C06:contains_fails_only_on_kinds_that_cannot_contain]
//@ editre <<for (\w+) in (\w+)\.values\(\)>> => <<for \1 in it: \2.values()>> why: names Verus' ghost iterator so that the invariant can refer to the position
//@ closure 0 arg_of=map params=b
|b: ScalarCow| -> (k: bool) ensures k == a.has_key(b.text().chars_view())
//@ loop 0 kind=for
    invariant
        a0.array_of() == Some(elems_ghost@), a0.scalar_of() is None, a0.object_size_of() is None,
        elems_ghost@.len() == it.seq().len(),
        forall|j: int| 0 <= j < it.seq().len() ==> (#[trigger] it.seq()[j]).vid_of() == elems_ghost@[j],
        forall|j: int| 0 <= j < it.index@ ==> !veq(#[trigger] elems_ghost@[j], b.vid_of()),
//@ ghost before re<<if let Some\(\w+\) = \w+\.as_scalar\(\)>>
    let ghost a0 = a;
//@ ghost before re<<for \w+ in \w+\.values\(\)>>
    let ghost elems_ghost = Ghost(a.elems());
//@ ghost after re<<if ValueViewCmp::new\(\w+\) [=!]= ValueViewCmp::new\(\w+\) \{>>
    proof { let k = it.index@ as int; assert(it.seq()[k].vid_of() == elems_ghost@[k]); assert(veq(elems_ghost@[k], b.vid_of())); assert(0 <= k < a0.array_of()->0.len() && veq(a0.array_of()->0[k], b.vid_of())); }
//@ prologue
    broadcast use axiom_valiter_items;
//@ end
}
fn main() {}

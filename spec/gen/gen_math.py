#!/usr/bin/env python3
"""Writes spec/units/math.rs (run once by hand when the contracts change; the output is committed)."""
import os
F = "crates/lib/src/stdlib/filters/math.rs"
out = []
w = out.append
w('''//@ unit math
//@ serves C15 C02
//@ include prelude/header.rs
use vstd::std_specs::ops::*;
use vstd::arithmetic::div_mod::*;
verus! {
//@ include prelude/std.rs
//@ include prelude/error.rs\n//@ include prelude/runtime.rs\n//@ include prelude/value.rs
//@ include prelude/float.rs

/// an evaluated filter argument (stand-in for ValueCow<'_>)
#[verifier::external_body]
pub struct ArgValue { _p: u8 }
impl ArgValue {
    pub uninterp spec fn scalar_of(&self) -> Option<ScalarCow>;
    #[verifier::external_body]
    pub fn as_scalar(&self) -> (r: Option<ScalarCow>) ensures r == self.scalar_of() { unimplemented!() }
}
pub assume_specification [i64::checked_abs] (i: i64) -> (r: Option<i64>)
    ensures r == (if i == i64::MIN { None::<i64> } else { Some((if i < 0 { -i } else { i as int }) as i64) });

pub open spec fn iabs(x: int) -> int { if x >= 0 { x } else { -x } }
pub open spec fn fits(x: int) -> bool { i64::MIN <= x <= i64::MAX }

/// Rust's `/` and `%` on signed integers (vstd's rust_div / rust_rem = truncation toward zero) satisfy the
/// property's law: dividend = quotient x divisor + remainder, |remainder| < |divisor|, remainder has the dividend's sign
proof fn lemma_euclid(x: int, b: int)
    requires b != 0
    ensures x == b * (x / b) + x % b, 0 <= x % b < iabs(b),
{
    assert(x == b * (x / b) + x % b && 0 <= x % b < (if b >= 0 { b } else { -b })) by (nonlinear_arith) requires b != 0;
}
proof fn lemma_trunc(a: int, b: int)
    requires b != 0
    ensures a == rust_div(a, b) * b + rust_rem(a, b),       // [C15:div_mod_law]
            iabs(rust_rem(a, b)) < iabs(b),                  // [C15:remainder_smaller_than_divisor]
            rust_rem(a, b) != 0 ==> ((rust_rem(a, b) > 0) == (a > 0)),
            iabs(rust_div(a, b)) <= iabs(a),
{
    let q = rust_div(a, b); let r = rust_rem(a, b);
    lemma_euclid(a, b); lemma_euclid(-a, b);
    if a >= 0 {
        assert(a == q * b + r) by (nonlinear_arith) requires a == b * q + r;
        assert(iabs(q) <= iabs(a)) by (nonlinear_arith) requires a == q * b + r, 0 <= r < iabs(b), b != 0, a >= 0;
    } else {
        assert(a == q * b + r) by (nonlinear_arith) requires -a == b * ((-a) / b) + (-a) % b, q == -((-a) / b), r == -((-a) % b);
        assert(iabs(q) <= iabs(a)) by (nonlinear_arith) requires a == q * b + r, -iabs(b) < r <= 0, b != 0, a < 0;
    }
}
proof fn lemma_div_fits(i: i64, o: i64)
    requires o != 0, !(i == i64::MIN && o == -1)
    ensures fits(rust_div(i as int, o as int)), fits(rust_rem(i as int, o as int)),
{
    let a = i as int; let b = o as int;
    lemma_trunc(a, b);
    let q = rust_div(a, b); let r = rust_rem(a, b);
    if a == i64::MIN as int && q == -(i64::MIN as int) {
        // q = 2^63 would force b == -1
        assert(false) by (nonlinear_arith)
            requires a == q * b + r, iabs(r) < iabs(b), a == -0x8000_0000_0000_0000int, q == 0x8000_0000_0000_0000int,
                     b != -1, b != 0, -0x8000_0000_0000_0000int <= b <= 0x7fff_ffff_ffff_ffffint;
    }
}
''')

def binary(name, field, fname, intop, fits_cond, int_ensures_closure, flt_method, kind):
    """kind: 'checked' (plus/minus/times/divided_by), 'minmax', 'modulo'"""
    S = f"{name}Filter"
    w(f'''
// ---------------- {fname} ----------------
pub struct {name}Args {{ pub e: u8 }}
pub struct Evaluated{name}Args {{ pub {field}: ArgValue }}
impl {name}Args {{
    #[verifier::external_body]
    pub fn evaluate(&self, runtime: &dyn Runtime) -> (r: Result<Evaluated{name}Args>)
        ensures r matches Ok(e) ==> {fname}_arg(self, runtime) == Some(e.{field}),
                r is Err ==> {fname}_arg(self, runtime) is None
    {{ unimplemented!() }}
}}
/// the evaluated operand the filter was called with (None: evaluating the argument expression failed)
pub uninterp spec fn {fname}_arg(a: &{name}Args, rt: &dyn Runtime) -> Option<ArgValue>;
pub struct {S} {{ pub args: {name}Args }}
pub open spec fn {fname}_ints(f: &{S}, input: &dyn ValueView, rt: &dyn Runtime) -> Option<(int, int)> {{
    match (input.scalar_of(), {fname}_arg(&f.args, rt)) {{
        (Some(a), Some(b)) => match (a.int_view(), b.scalar_of()) {{
            (Some(i), Some(bs)) => match bs.int_view() {{ Some(o) => Some((i as int, o as int)), None => None }},
            _ => None,
        }},
        _ => None,
    }}
}}
pub open spec fn {fname}_flts(f: &{S}, input: &dyn ValueView, rt: &dyn Runtime) -> Option<(f64, f64)> {{
    match (input.scalar_of(), {fname}_arg(&f.args, rt)) {{
        (Some(a), Some(b)) => match (a.flt_view(), b.scalar_of()) {{
            (Some(i), Some(bs)) => match bs.flt_view() {{ Some(o) => Some((i, o)), None => None }},
            _ => None,
        }},
        _ => None,
    }}
}}
impl {S} {{
//@ item {F} :: impl Filter for {S}::evaluate
//@ props C15 C02
//@ safety C02 C15
//@ sig fn evaluate(&self, input: &dyn ValueView, runtime: &dyn Runtime) -> (res: Result<Value>)
//@ spec
    ensures
        res matches Ok(v) ==> v.num() is Some,
        // an integer result is the exact mathematical result of the two integer operands
        res matches Ok(v) ==> (v.num() matches Some(Num::Int(k)) ==>
            ({fname}_ints(self, input, runtime) matches Some((i, o)) && {int_ensures_closure.replace("K","k")})),     // [C15:{fname}_int_exact]
        // whenever both operands are integers and the result fits in 64 bits, the filter returns it
        {fname}_ints(self, input, runtime) matches Some((i, o)) ==> ({fits_cond} ==>
            (res matches Ok(v) && v.num() == Some(Num::Int(({intop}) as i64)))),                         // [C15:{fname}_int_when_fits]
        // a float result only arises from the float views of both operands (the float operation itself is not modelled)
        res matches Ok(v) ==> (v.num() matches Some(Num::Flt(x)) ==>
            ({fname}_flts(self, input, runtime) is Some)),            // [C15:{fname}_float_from_float_views]''')
    if kind in ("div", "modulo"):
        w(f'''        // division by zero is an error
        {fname}_ints(self, input, runtime) matches Some((i, o)) ==> (o == 0 ==> res is Err),             // [C15:{fname}_by_zero_is_error]''')
    w('''//@ prologue
    broadcast use group_f64_total;''')
    w('''//@ closure 0 arg_of=ok_or_else params=
|| -> (e: Error)
//@ closure 1 arg_of=ok_or_else params=
|| -> (e: Error)''')
    if kind == "minmax":
        op = "max" if name == "AtLeast" else "min"
        cmp = ">=" if name == "AtLeast" else "<="
        w(f'''//@ closure 2 arg_of=and_then params=i
|i: i64| -> (r: Option<Value>)
    ensures {field}.int_view() is Some <==> r is Some,
            r matches Some(v) ==> ({field}.int_view() matches Some(o) && v.num() == Some(Num::Int(if i {cmp} o {{ i }} else {{ o }})))
//@ closure 3 arg_of=map params={field}
|{field}: i64| -> (v: Value) ensures v.num() == Some(Num::Int(if i {cmp} {field} {{ i }} else {{ {field} }}))''')
    elif kind == "modulo":
        w(f'''//@ closure 2 arg_of=and_then params=i
|i: i64| -> (r: Option<Value>)
    requires operand.int_view() matches Some(o) ==> o != 0
    ensures operand.int_view() is Some <==> r is Some,
            r matches Some(v) ==> (operand.int_view() matches Some(o) && v.num() == Some(Num::Int(rust_rem(i as int, o as int) as i64)))
//@ closure 3 arg_of=map params=o
|o: i64| -> (v: Value)
    requires o != 0
    ensures v.num() == Some(Num::Int(rust_rem(i as int, o as int) as i64))''')
    else:
        pre = "    requires operand.int_view() matches Some(o) ==> o != 0\n" if kind == "div" else ""
        pre3 = "    requires o != 0\n" if kind == "div" else ""
        w(f'''//@ closure 2 arg_of=and_then params=i
|i: i64| -> (r: Option<Value>)
{pre}    ensures r matches Some(v) ==> (operand.int_view() matches Some(o) && {{ let i = i as int; let o = o as int; {fits_cond} && v.num() == Some(Num::Int(({intop}) as i64)) }}),
            operand.int_view() matches Some(o) ==> ({{ let i = i as int; let o = o as int; {fits_cond} }} ==> r is Some)
//@ closure 3 arg_of=and_then params=o
|o: i64| -> (c: Option<i64>)
{pre3}    ensures c == ({{ let i = i as int; let o = o as int; if {fits_cond} {{ Some(({intop}) as i64) }} else {{ None::<i64> }} }})''')
    w(f'''//@ closure 4 arg_of=or_else params=
|| -> (r: Option<Value>)
    ensures r matches Some(v) ==> (input.flt_view() is Some && {field}.flt_view() is Some && v.num() matches Some(Num::Flt(_)))
//@ closure 5 arg_of=and_then params=i
|i: f64| -> (r: Option<Value>)
    ensures r matches Some(v) ==> ({field}.flt_view() is Some && v.num() matches Some(Num::Flt(_)))
//@ closure 6 arg_of=map params={"o" if kind not in ("minmax",) else field}
|{"o" if kind != "minmax" else field}: f64| -> (v: Value)
    ensures v.num() matches Some(Num::Flt(_))
//@ closure 7 arg_of=ok_or_else params=
|| -> (e: Error)''')
    if kind in ("div", "modulo"):
        w('''//@ ghost before <<let result = input>>
proof { if let (Some(i), Some(o)) = (input.int_view(), operand.int_view()) { if o != 0 { lemma_trunc(i as int, o as int); if !(i == i64::MIN && o == -1) { lemma_div_fits(i, o); } } } }''')
    w('''//@ end
}''')

binary("AtLeast", "min", "at_least", "if i >= o { i } else { o }", "true", "K == (if i >= o { i } else { o })", "f64_max(a, b)", "minmax")
binary("AtMost", "max", "at_most", "if i <= o { i } else { o }", "true", "K == (if i <= o { i } else { o })", "f64_min(a, b)", "minmax")
binary("Plus", "operand", "plus", "i + o", "fits(i + o)", "K == i + o", "a.add_spec(b)", "checked")
binary("Minus", "operand", "minus", "i - o", "fits(i - o)", "K == i - o", "a.sub_spec(b)", "checked")
binary("Times", "operand", "times", "i * o", "fits(i * o)", "K == i * o", "a.mul_spec(b)", "checked")
binary("DividedBy", "operand", "divided_by", "rust_div(i, o)", "(o != 0 && !(i == i64::MIN && o == -1))", "o != 0 && K == rust_div(i, o)", "a.div_spec(b)", "div")
binary("Modulo", "operand", "modulo", "rust_rem(i, o)", "(o != 0)", "o != 0 && K == rust_rem(i, o)", "a.rem_spec(b)", "modulo")

w('''
// ---------------- abs ----------------
pub struct AbsFilter;
impl AbsFilter {
//@ item ''' + F + ''' :: impl Filter for AbsFilter::evaluate
//@ props C15 C02
//@ safety C02 C15
//@ sig fn evaluate(&self, input: &dyn ValueView, _runtime: &dyn Runtime) -> (res: Result<Value>)
//@ spec
    ensures
        res matches Ok(v) ==> v.num() is Some,
        res matches Ok(v) ==> (v.num() matches Some(Num::Int(k)) ==>
            (input.scalar_of() matches Some(a) && a.int_view() matches Some(i) && k == iabs(i as int))),          // [C15:abs_int_exact]
        input.scalar_of() matches Some(a) ==> (a.int_view() matches Some(i) ==> (i != i64::MIN ==>
            (res matches Ok(v) && v.num() == Some(Num::Int(iabs(i as int) as i64))))),                            // [C15:abs_int_when_fits]
        res matches Ok(v) ==> (v.num() matches Some(Num::Flt(x)) ==>
            (input.scalar_of() matches Some(a) && a.flt_view() matches Some(f) && x == f64_abs(f))),              // [C15:abs_float_is_f64_abs]
//@ prologue
    broadcast use group_f64_total;
//@ closure 0 arg_of=ok_or_else params=
|| -> (e: Error)
//@ closure 1 arg_of=and_then params=i
|i: i64| -> (r: Option<i64>) ensures r == (if i == i64::MIN { None::<i64> } else { Some(iabs(i as int) as i64) })
//@ closure 2 arg_of=or_else params=
|| -> (r: Option<Value>) ensures r matches Some(v) ==> (input.flt_view() matches Some(f) && v.num() == Some(Num::Flt(f64_abs(f))))
//@ closure 3 arg_of=map params=i
|i: f64| -> (v: Value) ensures v.num() == Some(Num::Flt(f64_abs(i)))
//@ closure 4 arg_of=ok_or_else params=
|| -> (e: Error)
//@ end
}

// ---------------- floor / ceil / round ----------------
pub struct FloorFilter;
pub struct CeilFilter;
pub open spec fn input_float(input: &dyn ValueView) -> Option<f64> {
    match input.scalar_of() { Some(s) => s.flt_view(), None => None }
}
impl FloorFilter {
//@ item ''' + F + ''' :: impl Filter for FloorFilter::evaluate
//@ props C15 C02
//@ safety C02 C15
//@ sig fn evaluate(&self, input: &dyn ValueView, _runtime: &dyn Runtime) -> (res: Result<Value>)
//@ spec
    ensures
        res matches Ok(v) ==> (input_float(input) matches Some(f) && v.num() == Some(Num::Int(f64_to_i64(f64_floor(f))))),    // [C15:floor_is_floor_then_cast]
        input_float(input) is Some ==> res is Ok,                                                                             // [C15:floor_total_on_numbers]
//@ editall << as i64>> => <<.sat_i64()>> why: Verus leaves the float->int `as` cast unspecified; stand-in method with an uninterpreted result
//@ closure 0 arg_of=and_then params=s
|s: ScalarCow| -> (o: Option<f64>) ensures o == s.flt_view()
//@ closure 1 arg_of=ok_or_else params=
|| -> (e: Error)
//@ end
}
impl CeilFilter {
//@ item ''' + F + ''' :: impl Filter for CeilFilter::evaluate
//@ props C15 C02
//@ safety C02 C15
//@ sig fn evaluate(&self, input: &dyn ValueView, _runtime: &dyn Runtime) -> (res: Result<Value>)
//@ spec
    ensures
        res matches Ok(v) ==> (input_float(input) matches Some(f) && v.num() == Some(Num::Int(f64_to_i64(f64_ceil(f))))),     // [C15:ceil_is_ceil_then_cast]
        input_float(input) is Some ==> res is Ok,                                                                             // [C15:ceil_total_on_numbers]
//@ editall << as i64>> => <<.sat_i64()>> why: Verus leaves the float->int `as` cast unspecified; stand-in method with an uninterpreted result
//@ closure 0 arg_of=and_then params=s
|s: ScalarCow| -> (o: Option<f64>) ensures o == s.flt_view()
//@ closure 1 arg_of=ok_or_else params=
|| -> (e: Error)
//@ end
}

// round: n <= 0 decimal places -> round then cast; n > 0 -> (x * 10^n).round() / 10^n
pub struct RoundArgs { pub e: u8 }
pub struct EvaluatedRoundArgs { pub decimal_places: Option<i64> }
impl RoundArgs {
    #[verifier::external_body]
    pub fn evaluate(&self, runtime: &dyn Runtime) -> (r: Result<EvaluatedRoundArgs>)
        ensures r matches Ok(e) ==> round_arg(self, runtime) == Some(e.decimal_places),
                r is Err ==> round_arg(self, runtime) is None
    { unimplemented!() }
}
pub uninterp spec fn round_arg(a: &RoundArgs, rt: &dyn Runtime) -> Option<Option<i64>>;
pub struct RoundFilter { pub args: RoundArgs }
pub open spec fn places(a: Option<i64>) -> int { match a { Some(n) => n as int, None => 0 } }
impl RoundFilter {
//@ item ''' + F + ''' :: impl Filter for RoundFilter::evaluate
//@ props C15 C02
//@ safety C02 C15
//@ sig fn evaluate(&self, input: &dyn ValueView, runtime: &dyn Runtime) -> (res: Result<Value>)
//@ spec
    ensures
        res matches Ok(v) ==> (round_arg(&self.args, runtime) matches Some(a) && input_float(input) matches Some(f) && (
            (places(a) <= 0 ==> v.num() == Some(Num::Int(f64_to_i64(f64_round(f)))))                                          // [C15:round_to_integer_is_round_then_cast]
            && (places(a) > 0 ==> v.num() matches Some(Num::Flt(_))))),                                                       // [C15:round_to_places_is_float]
        (round_arg(&self.args, runtime) matches Some(a) && input_float(input) is Some && places(a) <= i32::MAX) ==> res is Ok, // [C15:round_total_on_numbers]
//@ prologue
    broadcast use group_f64_total;
//@ editall << as i64>> => <<.sat_i64()>> why: Verus leaves the float->int `as` cast unspecified; stand-in method with an uninterpreted result
//@ closure 0 arg_of=and_then params=s
|s: ScalarCow| -> (o: Option<f64>) ensures o == s.flt_view()
//@ closure 1 arg_of=ok_or_else params=
|| -> (e: Error)
//@ closure 2 arg_of=map_err params=_
|_e: core::num::TryFromIntError| -> (e: Error)
//@ end
}

} // verus!
fn main() {}
''')
path = os.path.join(os.path.dirname(os.path.abspath(__file__)), "..", "units", "math.rs")
open(path, "w").write("\n".join(out))
print("wrote", os.path.normpath(path))

//@ unit slice
//@ serves C13 C02
// Kani twin of canonicalize_slice: verbatim body, all isize offsets/lengths and all lengths up to isize::MAX.
#![allow(dead_code, unused_variables, unused_imports, clippy::all)]
use std::cmp;
//@ item crates/lib/src/stdlib/filters/slice.rs :: fn canonicalize_slice
//@ end

#[cfg(kani)]
mod proofs {
    use super::*;
    #[kani::proof]
    fn c13_canonicalize_slice() {
        let off: isize = kani::any();
        let len: isize = kani::any();
        let n: usize = kani::any();
        kani::assume(len >= 1 && n <= isize::MAX as usize);
        let (o, l) = canonicalize_slice(off, len, n);
        let ni = n as i128;
        let offi = off as i128;
        let c = { let x = if offi < ni { offi } else { ni }; if x < 0 { x + ni } else { x } };
        assert!((l as i128) <= len as i128);                                 // at most the requested length
        if c >= 0 {
            assert!(o as i128 == c);                                          // start
            let rest = ni - c;
            assert!(l as i128 == if (len as i128) <= rest { len as i128 } else { rest });   // capped length
            assert!(o as i128 + l as i128 <= ni);                             // a contiguous piece of the input
        } else {
            assert!(o as i128 > ni);                                          // an offset before the start selects nothing
        }
    }
}

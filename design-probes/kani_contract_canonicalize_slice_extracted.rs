use std::cmp;

#[cfg_attr(kani, kani::requires(slice_length >= 1 && vec_length <= isize::MAX as usize))]
#[cfg_attr(kani, kani::ensures(|r: &(usize, usize)| r.1 <= slice_length as usize))]
#[cfg_attr(kani, kani::ensures(|r: &(usize, usize)| !(r.0 <= vec_length) || r.0 + r.1 <= vec_length))]
fn canonicalize_slice(
    slice_offset: isize,
    slice_length: isize,
    vec_length: usize,
) -> (usize, usize) {
    let vec_length = vec_length as isize;

    // Cap slice_offset
    let slice_offset = cmp::min(slice_offset, vec_length);
    // Reverse indexing
    let slice_offset = if slice_offset < 0 {
        slice_offset + vec_length
    } else {
        slice_offset
    };

    // Cap slice_length
    let slice_length = if slice_offset + slice_length > vec_length {
        vec_length - slice_offset
    } else {
        slice_length
    };

    (slice_offset as usize, slice_length as usize)
}

#[cfg(kani)]
#[kani::proof_for_contract(canonicalize_slice)]
fn check_canonicalize_slice() {
    canonicalize_slice(kani::any(), kani::any(), kani::any());
}

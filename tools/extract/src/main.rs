//! extract: AST-accurate byte ranges of items, closures and loops of one Rust source file.
//!
//! usage: extract <file.rs>   -> JSON on stdout
//!
//! The Python driver (tools/vp) does all splicing; this tool only *locates*: every
//! fn (free, inherent impl, trait impl, trait default) with its signature range, body
//! range, its closures (pre-order) and loops (pre-order), plus struct/enum items.
use proc_macro2::Span;
use quote::ToTokens;
use serde_json::{json, Value};
use syn::spanned::Spanned;
use syn::visit::Visit;

fn br(s: Span) -> (usize, usize) {
    let r = s.byte_range();
    (r.start, r.end)
}

fn norm(ts: impl ToTokens) -> String {
    // token string without whitespace differences
    let s = ts.to_token_stream().to_string();
    let mut out = String::new();
    let mut prev_space = false;
    for c in s.chars() {
        if c.is_whitespace() {
            prev_space = true;
        } else {
            if prev_space && !out.is_empty() {
                let lc = out.chars().last().unwrap();
                if (lc.is_alphanumeric() || lc == '_') && (c.is_alphanumeric() || c == '_') {
                    out.push(' ');
                }
            }
            prev_space = false;
            out.push(c);
        }
    }
    out
}

struct BodyV<'s> {
    src: &'s str,
    closures: Vec<Value>,
    loops: Vec<Value>,
    tries: Vec<Value>,
    macros: Vec<Value>,
    method_stack: Vec<String>,
}

impl<'ast, 's> Visit<'ast> for BodyV<'s> {
    fn visit_expr_method_call(&mut self, m: &'ast syn::ExprMethodCall) {
        // receiver is visited outside of this method's "argument" context
        self.visit_expr(&m.receiver);
        self.method_stack.push(m.method.to_string());
        for a in &m.args {
            self.visit_expr(a);
        }
        self.method_stack.pop();
    }
    fn visit_expr_call(&mut self, c: &'ast syn::ExprCall) {
        self.visit_expr(&c.func);
        self.method_stack.push(norm(&c.func));
        for a in &c.args {
            self.visit_expr(a);
        }
        self.method_stack.pop();
    }
    fn visit_expr_closure(&mut self, c: &'ast syn::ExprClosure) {
        let (hs, _) = br(c.or1_token.span());
        let (bs, be) = br(c.body.span());
        let whole = br(c.span());
        let params: Vec<String> = c.inputs.iter().map(|p| norm(p)).collect();
        let is_block = matches!(*c.body, syn::Expr::Block(_));
        let has_move = c.capture.is_some();
        self.closures.push(json!({
            "k": self.closures.len(),
            "start": whole.0, "end": whole.1,
            "head_start": hs, "body_start": bs, "body_end": be,
            "body_is_block": is_block,
            "move": has_move,
            "params": params,
            "ret": match &c.output { syn::ReturnType::Default => Value::Null, syn::ReturnType::Type(_, t) => json!(norm(t)) },
            "arg_of": self.method_stack.last().cloned(),
            "head_text": &self.src[hs..bs],
        }));
        // closure body starts a fresh argument context
        let saved = std::mem::take(&mut self.method_stack);
        syn::visit::visit_expr_closure(self, c);
        self.method_stack = saved;
    }
    fn visit_expr_for_loop(&mut self, l: &'ast syn::ExprForLoop) {
        let (s, _) = br(l.for_token.span());
        let (bs, be) = br(l.body.span());
        self.loops.push(json!({"k": self.loops.len(), "kind": "for", "start": s, "body_start": bs, "body_end": be,
            "head_text": &self.src[s..bs]}));
        syn::visit::visit_expr_for_loop(self, l);
    }
    fn visit_expr_while(&mut self, l: &'ast syn::ExprWhile) {
        let (s, _) = br(l.while_token.span());
        let (bs, be) = br(l.body.span());
        self.loops.push(json!({"k": self.loops.len(), "kind": "while", "start": s, "body_start": bs, "body_end": be,
            "head_text": &self.src[s..bs]}));
        syn::visit::visit_expr_while(self, l);
    }
    fn visit_expr_loop(&mut self, l: &'ast syn::ExprLoop) {
        let (s, _) = br(l.loop_token.span());
        let (bs, be) = br(l.body.span());
        self.loops.push(json!({"k": self.loops.len(), "kind": "loop", "start": s, "body_start": bs, "body_end": be,
            "head_text": &self.src[s..bs]}));
        syn::visit::visit_expr_loop(self, l);
    }
    fn visit_expr_try(&mut self, t: &'ast syn::ExprTry) {
        let (s, e) = br(t.span());
        self.tries.push(json!({"k": self.tries.len(), "start": s, "end": e}));
        syn::visit::visit_expr_try(self, t);
    }
    fn visit_macro(&mut self, m: &'ast syn::Macro) {
        let (s, e) = br(m.span());
        self.macros.push(json!({"k": self.macros.len(), "name": norm(&m.path), "start": s, "end": e}));
        // try to look inside macro args as expressions (for `?`/closures inside write!/format! args) — not needed
    }
    fn visit_item(&mut self, _i: &'ast syn::Item) {
        // do not descend into nested items
    }
}

struct TopV<'s> {
    src: &'s str,
    prefix: Vec<String>,
    out: Vec<Value>,
}

impl<'s> TopV<'s> {
    fn add_fn(&mut self, attrs: &[syn::Attribute], vis: Option<&syn::Visibility>, sig: &syn::Signature, block: Option<&syn::Block>, whole: Span) {
        let name = sig.ident.to_string();
        let path = if self.prefix.is_empty() { format!("fn {}", name) } else { format!("{}::{}", self.prefix.join("::"), name) };
        let (ws, we) = br(whole);
        // signature: from `fn`-ish start (after attrs and vis) to body start
        let sig_start = {
            let mut s = br(sig.span()).0;
            if let Some(c) = &sig.constness { s = s.min(br(c.span()).0); }
            if let Some(c) = &sig.asyncness { s = s.min(br(c.span()).0); }
            if let Some(c) = &sig.unsafety { s = s.min(br(c.span()).0); }
            s
        };
        let _ = (attrs, vis);
        let mut v = BodyV { src: self.src, closures: vec![], loops: vec![], tries: vec![], macros: vec![], method_stack: vec![] };
        let (body, sig_end) = match block {
            Some(b) => {
                v.visit_block(b);
                let (bs, be) = br(b.span());
                (json!({"start": bs, "end": be}), bs)
            }
            None => (Value::Null, we),
        };
        let inputs: Vec<String> = sig.inputs.iter().map(|a| norm(a)).collect();
        self.out.push(json!({
            "kind": "fn",
            "path": path,
            "name": name,
            "start": ws, "end": we,
            "sig_start": sig_start, "sig_end": sig_end,
            "sig_text": self.src[sig_start..sig_end].trim_end(),
            "sig_norm": norm(sig),
            "inputs": inputs,
            "ret": match &sig.output { syn::ReturnType::Default => Value::Null, syn::ReturnType::Type(_, t) => json!(norm(t)) },
            "unsafe": sig.unsafety.is_some(),
            "body": body,
            "closures": v.closures,
            "loops": v.loops,
            "tries": v.tries,
            "macros": v.macros,
        }));
    }
}

impl<'ast, 's> Visit<'ast> for TopV<'s> {
    fn visit_item_fn(&mut self, f: &'ast syn::ItemFn) {
        self.add_fn(&f.attrs, Some(&f.vis), &f.sig, Some(&f.block), f.span());
    }
    fn visit_item_impl(&mut self, i: &'ast syn::ItemImpl) {
        let selfty = norm(&i.self_ty);
        let p = match &i.trait_ {
            Some((_, path, _)) => format!("impl {} for {}", norm(path), selfty),
            None => format!("impl {}", selfty),
        };
        self.prefix.push(p);
        for it in &i.items {
            if let syn::ImplItem::Fn(f) = it {
                self.add_fn(&f.attrs, Some(&f.vis), &f.sig, Some(&f.block), f.span());
            }
        }
        self.prefix.pop();
    }
    fn visit_item_trait(&mut self, t: &'ast syn::ItemTrait) {
        self.prefix.push(format!("trait {}", t.ident));
        for it in &t.items {
            if let syn::TraitItem::Fn(f) = it {
                self.add_fn(&f.attrs, None, &f.sig, f.default.as_ref(), f.span());
            }
        }
        self.prefix.pop();
    }
    fn visit_item_mod(&mut self, m: &'ast syn::ItemMod) {
        // only non-test inline modules
        let is_test = m.attrs.iter().any(|a| norm(a).contains("cfg(test)"));
        if is_test { return; }
        if let Some((_, items)) = &m.content {
            self.prefix.push(format!("mod {}", m.ident));
            for it in items { self.visit_item(it); }
            self.prefix.pop();
        }
    }
    fn visit_item_struct(&mut self, s: &'ast syn::ItemStruct) {
        let (ws, we) = br(s.span());
        let ks = br(s.struct_token.span()).0;
        let fields: Vec<Value> = s.fields.iter().map(|f| json!({"name": f.ident.as_ref().map(|i| i.to_string()), "ty": norm(&f.ty)})).collect();
        self.out.push(json!({"kind": "struct", "path": format!("struct {}", s.ident), "start": ws, "end": we, "kw_start": ks,
            "text": &self.src[ks..we], "fields": fields, "generics": norm(&s.generics)}));
    }
    fn visit_item_enum(&mut self, e: &'ast syn::ItemEnum) {
        let (ws, we) = br(e.span());
        let ks = br(e.enum_token.span()).0;
        let variants: Vec<String> = e.variants.iter().map(|v| norm(v)).collect();
        self.out.push(json!({"kind": "enum", "path": format!("enum {}", e.ident), "start": ws, "end": we, "kw_start": ks,
            "text": &self.src[ks..we], "variants": variants, "generics": norm(&e.generics)}));
    }
}

fn main() {
    let p = std::env::args().nth(1).expect("usage: extract <file.rs>");
    let src = match std::fs::read_to_string(&p) {
        Ok(s) => s,
        Err(e) => { println!("{}", json!({"error": format!("read: {e}")})); std::process::exit(3); }
    };
    let file = match syn::parse_file(&src) {
        Ok(f) => f,
        Err(e) => { println!("{}", json!({"error": format!("parse: {e}")})); std::process::exit(3); }
    };
    let mut v = TopV { src: &src, prefix: vec![], out: vec![] };
    v.visit_file(&file);
    println!("{}", serde_json::to_string(&json!({"file": p, "items": v.out})).unwrap());
}

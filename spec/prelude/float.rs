// ---- f64: IEEE operations never trap (vstd's *_req preconditions are unprovable otherwise); trusted ----
pub broadcast axiom fn axiom_f64_add_req(a: f64, b: f64) ensures #[trigger] a.add_req(b);
pub broadcast axiom fn axiom_f64_sub_req(a: f64, b: f64) ensures #[trigger] a.sub_req(b);
pub broadcast axiom fn axiom_f64_mul_req(a: f64, b: f64) ensures #[trigger] a.mul_req(b);
pub broadcast axiom fn axiom_f64_div_req(a: f64, b: f64) ensures #[trigger] a.div_req(b);
pub broadcast axiom fn axiom_f64_rem_req(a: f64, b: f64) ensures #[trigger] a.rem_req(b);
pub broadcast group group_f64_total { axiom_f64_add_req, axiom_f64_sub_req, axiom_f64_mul_req, axiom_f64_div_req, axiom_f64_rem_req }
pub uninterp spec fn f64_abs(a: f64) -> f64;
pub uninterp spec fn f64_max(a: f64, b: f64) -> f64;
pub uninterp spec fn f64_min(a: f64, b: f64) -> f64;
pub assume_specification [f64::abs] (a: f64) -> (r: f64) ensures r == f64_abs(a);
pub assume_specification [f64::max] (a: f64, b: f64) -> (r: f64) ensures r == f64_max(a, b);
pub assume_specification [f64::min] (a: f64, b: f64) -> (r: f64) ensures r == f64_min(a, b);

//@ unit views
//@ serves C12 C06 C11 C02
//@ include prelude/header.rs
verus! {
// ---------------- assumed environment: the value model's view traits (stand-ins; trusted) ----------------
#[verifier::external_body] pub struct VId { _p: u8 }
#[verifier::external_body] pub struct KStringCow { _p: u8 }
#[verifier::external_body] pub struct ScalarCow { _p: u8 }
#[verifier::external_body] pub struct DisplayCow { _p: u8 }
/// payloads of the real `enum Value` (stand-ins; each is a view of its own)
#[verifier::external_body] pub struct Scalar { _p: u8 }
#[verifier::external_body] pub struct Array { _p: u8 }
#[verifier::external_body] pub struct Object { _p: u8 }
#[derive(Clone, Copy)]
pub enum State { Truthy, DefaultValue, Empty, Blank }
pub trait ArrayView { }
pub trait ObjectView { }

/// Every observable answer of a view, as a spec function next to the method that gives it. "Two views agree" means
/// these functions agree.
pub trait ValueView {
    spec fn render_of(&self) -> DisplayCow;
    spec fn source_of(&self) -> DisplayCow;
    spec fn type_name_of(&self) -> &'static str;
    spec fn state_of(&self, state: State) -> bool;
    spec fn kstr_of(&self) -> KStringCow;
    spec fn value_of(&self) -> Value;
    spec fn scalar_of(&self) -> Option<ScalarCow>;
    spec fn array_of(&self) -> Option<&dyn ArrayView>;
    spec fn object_of(&self) -> Option<&dyn ObjectView>;
    spec fn as_state_of(&self) -> Option<State>;
    spec fn nil_of(&self) -> bool;
    fn render(&self) -> (r: DisplayCow) ensures r == self.render_of();      // [C12:render_of_a_wrapper_is_that_of_the_wrapped_value]
    fn source(&self) -> (r: DisplayCow) ensures r == self.source_of();      // [C12:source_of_a_wrapper_is_that_of_the_wrapped_value]
    fn type_name(&self) -> (r: &'static str) ensures r == self.type_name_of();      // [C12:type_name_of_a_wrapper_is_that_of_the_wrapped_value]
    fn query_state(&self, state: State) -> (r: bool) ensures r == self.state_of(state);      // [C12:query_state_of_a_wrapper_is_that_of_the_wrapped_value]
    fn to_kstr(&self) -> (r: KStringCow) ensures r == self.kstr_of();      // [C12:to_kstr_of_a_wrapper_is_that_of_the_wrapped_value]
    fn to_value(&self) -> (r: Value) ensures r == self.value_of();      // [C12:to_value_of_a_wrapper_is_that_of_the_wrapped_value]
    fn as_scalar(&self) -> (r: Option<ScalarCow>) ensures r == self.scalar_of();      // [C12:as_scalar_of_a_wrapper_is_that_of_the_wrapped_value]
    fn as_array(&self) -> (r: Option<&dyn ArrayView>) ensures r == self.array_of();      // [C12:as_array_of_a_wrapper_is_that_of_the_wrapped_value]
    fn as_object(&self) -> (r: Option<&dyn ObjectView>) ensures r == self.object_of();      // [C12:as_object_of_a_wrapper_is_that_of_the_wrapped_value]
    fn as_state(&self) -> (r: Option<State>) ensures r == self.as_state_of();      // [C12:as_state_of_a_wrapper_is_that_of_the_wrapped_value]
    fn is_nil(&self) -> (r: bool) ensures r == self.nil_of();      // [C12:is_nil_of_a_wrapper_is_that_of_the_wrapped_value]
}
/// the unsizing coercion `&T -> &dyn ValueView` as a spec term: the SAME value seen as a view
pub open spec fn as_dyn<T: ValueView>(v: &T) -> &dyn ValueView { v }

//@ item crates/core/src/model/value/values.rs :: enum Value
//@ kind enum
//@ vis pub
//@ end
impl ValueView for Scalar {
    uninterp spec fn render_of(&self) -> DisplayCow;
    uninterp spec fn source_of(&self) -> DisplayCow;
    uninterp spec fn type_name_of(&self) -> &'static str;
    uninterp spec fn state_of(&self, state: State) -> bool;
    uninterp spec fn kstr_of(&self) -> KStringCow;
    uninterp spec fn value_of(&self) -> Value;
    uninterp spec fn scalar_of(&self) -> Option<ScalarCow>;
    uninterp spec fn array_of(&self) -> Option<&dyn ArrayView>;
    uninterp spec fn object_of(&self) -> Option<&dyn ObjectView>;
    uninterp spec fn as_state_of(&self) -> Option<State>;
    uninterp spec fn nil_of(&self) -> bool;
    #[verifier::external_body] fn render(&self) -> (r: DisplayCow) { unimplemented!() }
    #[verifier::external_body] fn source(&self) -> (r: DisplayCow) { unimplemented!() }
    #[verifier::external_body] fn type_name(&self) -> (r: &'static str) { unimplemented!() }
    #[verifier::external_body] fn query_state(&self, state: State) -> (r: bool) { unimplemented!() }
    #[verifier::external_body] fn to_kstr(&self) -> (r: KStringCow) { unimplemented!() }
    #[verifier::external_body] fn to_value(&self) -> (r: Value) { unimplemented!() }
    #[verifier::external_body] fn as_scalar(&self) -> (r: Option<ScalarCow>) { unimplemented!() }
    #[verifier::external_body] fn as_array(&self) -> (r: Option<&dyn ArrayView>) { unimplemented!() }
    #[verifier::external_body] fn as_object(&self) -> (r: Option<&dyn ObjectView>) { unimplemented!() }
    #[verifier::external_body] fn as_state(&self) -> (r: Option<State>) { unimplemented!() }
    #[verifier::external_body] fn is_nil(&self) -> (r: bool) { unimplemented!() }
}
impl ValueView for Array {
    uninterp spec fn render_of(&self) -> DisplayCow;
    uninterp spec fn source_of(&self) -> DisplayCow;
    uninterp spec fn type_name_of(&self) -> &'static str;
    uninterp spec fn state_of(&self, state: State) -> bool;
    uninterp spec fn kstr_of(&self) -> KStringCow;
    uninterp spec fn value_of(&self) -> Value;
    uninterp spec fn scalar_of(&self) -> Option<ScalarCow>;
    uninterp spec fn array_of(&self) -> Option<&dyn ArrayView>;
    uninterp spec fn object_of(&self) -> Option<&dyn ObjectView>;
    uninterp spec fn as_state_of(&self) -> Option<State>;
    uninterp spec fn nil_of(&self) -> bool;
    #[verifier::external_body] fn render(&self) -> (r: DisplayCow) { unimplemented!() }
    #[verifier::external_body] fn source(&self) -> (r: DisplayCow) { unimplemented!() }
    #[verifier::external_body] fn type_name(&self) -> (r: &'static str) { unimplemented!() }
    #[verifier::external_body] fn query_state(&self, state: State) -> (r: bool) { unimplemented!() }
    #[verifier::external_body] fn to_kstr(&self) -> (r: KStringCow) { unimplemented!() }
    #[verifier::external_body] fn to_value(&self) -> (r: Value) { unimplemented!() }
    #[verifier::external_body] fn as_scalar(&self) -> (r: Option<ScalarCow>) { unimplemented!() }
    #[verifier::external_body] fn as_array(&self) -> (r: Option<&dyn ArrayView>) { unimplemented!() }
    #[verifier::external_body] fn as_object(&self) -> (r: Option<&dyn ObjectView>) { unimplemented!() }
    #[verifier::external_body] fn as_state(&self) -> (r: Option<State>) { unimplemented!() }
    #[verifier::external_body] fn is_nil(&self) -> (r: bool) { unimplemented!() }
}
impl ValueView for Object {
    uninterp spec fn render_of(&self) -> DisplayCow;
    uninterp spec fn source_of(&self) -> DisplayCow;
    uninterp spec fn type_name_of(&self) -> &'static str;
    uninterp spec fn state_of(&self, state: State) -> bool;
    uninterp spec fn kstr_of(&self) -> KStringCow;
    uninterp spec fn value_of(&self) -> Value;
    uninterp spec fn scalar_of(&self) -> Option<ScalarCow>;
    uninterp spec fn array_of(&self) -> Option<&dyn ArrayView>;
    uninterp spec fn object_of(&self) -> Option<&dyn ObjectView>;
    uninterp spec fn as_state_of(&self) -> Option<State>;
    uninterp spec fn nil_of(&self) -> bool;
    #[verifier::external_body] fn render(&self) -> (r: DisplayCow) { unimplemented!() }
    #[verifier::external_body] fn source(&self) -> (r: DisplayCow) { unimplemented!() }
    #[verifier::external_body] fn type_name(&self) -> (r: &'static str) { unimplemented!() }
    #[verifier::external_body] fn query_state(&self, state: State) -> (r: bool) { unimplemented!() }
    #[verifier::external_body] fn to_kstr(&self) -> (r: KStringCow) { unimplemented!() }
    #[verifier::external_body] fn to_value(&self) -> (r: Value) { unimplemented!() }
    #[verifier::external_body] fn as_scalar(&self) -> (r: Option<ScalarCow>) { unimplemented!() }
    #[verifier::external_body] fn as_array(&self) -> (r: Option<&dyn ArrayView>) { unimplemented!() }
    #[verifier::external_body] fn as_object(&self) -> (r: Option<&dyn ObjectView>) { unimplemented!() }
    #[verifier::external_body] fn as_state(&self) -> (r: Option<State>) { unimplemented!() }
    #[verifier::external_body] fn is_nil(&self) -> (r: bool) { unimplemented!() }
}
impl ValueView for State {
    uninterp spec fn render_of(&self) -> DisplayCow;
    uninterp spec fn source_of(&self) -> DisplayCow;
    uninterp spec fn type_name_of(&self) -> &'static str;
    uninterp spec fn state_of(&self, state: State) -> bool;
    uninterp spec fn kstr_of(&self) -> KStringCow;
    uninterp spec fn value_of(&self) -> Value;
    uninterp spec fn scalar_of(&self) -> Option<ScalarCow>;
    uninterp spec fn array_of(&self) -> Option<&dyn ArrayView>;
    uninterp spec fn object_of(&self) -> Option<&dyn ObjectView>;
    uninterp spec fn as_state_of(&self) -> Option<State>;
    uninterp spec fn nil_of(&self) -> bool;
    #[verifier::external_body] fn render(&self) -> (r: DisplayCow) { unimplemented!() }
    #[verifier::external_body] fn source(&self) -> (r: DisplayCow) { unimplemented!() }
    #[verifier::external_body] fn type_name(&self) -> (r: &'static str) { unimplemented!() }
    #[verifier::external_body] fn query_state(&self, state: State) -> (r: bool) { unimplemented!() }
    #[verifier::external_body] fn to_kstr(&self) -> (r: KStringCow) { unimplemented!() }
    #[verifier::external_body] fn to_value(&self) -> (r: Value) { unimplemented!() }
    #[verifier::external_body] fn as_scalar(&self) -> (r: Option<ScalarCow>) { unimplemented!() }
    #[verifier::external_body] fn as_array(&self) -> (r: Option<&dyn ArrayView>) { unimplemented!() }
    #[verifier::external_body] fn as_object(&self) -> (r: Option<&dyn ObjectView>) { unimplemented!() }
    #[verifier::external_body] fn as_state(&self) -> (r: Option<State>) { unimplemented!() }
    #[verifier::external_body] fn is_nil(&self) -> (r: bool) { unimplemented!() }
}
impl ArrayView for Array { }
impl ObjectView for Object { }
pub open spec fn as_dyn_array<T: ArrayView>(v: &T) -> &dyn ArrayView { v }
pub open spec fn as_dyn_object<T: ObjectView>(v: &T) -> &dyn ObjectView { v }
/// derive(Clone) on the payloads is structural
impl Clone for Scalar { #[verifier::external_body] fn clone(&self) -> (r: Self) ensures r == *self { unimplemented!() } }
impl Clone for Array { #[verifier::external_body] fn clone(&self) -> (r: Self) ensures r == *self { unimplemented!() } }
impl Clone for Object { #[verifier::external_body] fn clone(&self) -> (r: Self) ensures r == *self { unimplemented!() } }
impl Scalar {
    pub uninterp spec fn borrowed(&self) -> ScalarCow;
    /// Scalar = ScalarCow<'static>: `as_ref` re-borrows, `into_owned` is the identity on an owned scalar
    #[verifier::external_body] pub fn as_ref(&self) -> (r: ScalarCow) ensures r == self.borrowed() { unimplemented!() }
    #[verifier::external_body] pub fn into_owned(self) -> (r: Scalar) ensures r == self { unimplemented!() }
}
impl KStringCow {
    pub uninterp spec fn of_static(s: &'static str) -> KStringCow;
    #[verifier::external_body] pub fn from_static(s: &'static str) -> (r: KStringCow) ensures r == Self::of_static(s) { unimplemented!() }
}

/// The kind of a value is its variant, and each answer of a Value is the answer of its payload; nil answers for itself:
/// it is not truthy, it is default / empty / blank, it has no scalar / array / object / state view, its text is "".
impl ValueView for Value {
    uninterp spec fn render_of(&self) -> DisplayCow;
    uninterp spec fn source_of(&self) -> DisplayCow;
    open spec fn type_name_of(&self) -> &'static str {
        match *self { Value::Scalar(x) => x.type_name_of(), Value::Array(x) => x.type_name_of(), Value::Object(x) => x.type_name_of(), Value::State(x) => x.type_name_of(), Value::Nil => "nil" }
    }
    open spec fn state_of(&self, state: State) -> bool {
        match *self { Value::Scalar(x) => x.state_of(state), Value::Array(x) => x.state_of(state), Value::Object(x) => x.state_of(state), Value::State(x) => x.state_of(state),
                      Value::Nil => !(state is Truthy) }
    }
    open spec fn kstr_of(&self) -> KStringCow {
        match *self { Value::Scalar(x) => x.kstr_of(), Value::Array(x) => x.kstr_of(), Value::Object(x) => x.kstr_of(), Value::State(x) => x.kstr_of(), Value::Nil => KStringCow::of_static("") }
    }
    /// "converting a value to its owned form preserves its kind and contents"
    open spec fn value_of(&self) -> Value { *self }
    open spec fn scalar_of(&self) -> Option<ScalarCow> { match *self { Value::Scalar(s) => Some(s.borrowed()), _ => None } }
    open spec fn array_of(&self) -> Option<&dyn ArrayView> { match self { Value::Array(s) => Some(as_dyn_array::<Array>(s)), _ => None } }
    open spec fn object_of(&self) -> Option<&dyn ObjectView> { match self { Value::Object(s) => Some(as_dyn_object::<Object>(s)), _ => None } }
    open spec fn as_state_of(&self) -> Option<State> { match *self { Value::State(s) => Some(s), _ => None } }
    open spec fn nil_of(&self) -> bool { *self is Nil }
    #[verifier::external_body] fn render(&self) -> (r: DisplayCow) { unimplemented!() }
    #[verifier::external_body] fn source(&self) -> (r: DisplayCow) { unimplemented!() }
//@ item crates/core/src/model/value/values.rs :: impl ValueView for Value::type_name
//@ props C12 C06 C02
//@ sig fn type_name(&self) -> (r: &'static str)
//@ end
//@ item crates/core/src/model/value/values.rs :: impl ValueView for Value::query_state
//@ props C12 C06 C02
//@ sig fn query_state(&self, state: State) -> (r: bool)
//@ end
//@ item crates/core/src/model/value/values.rs :: impl ValueView for Value::to_kstr
//@ props C12 C06 C02
//@ sig fn to_kstr(&self) -> (r: KStringCow)
//@ end
//@ item crates/core/src/model/value/values.rs :: impl ValueView for Value::to_value
//@ props C12 C06 C02
//@ sig fn to_value(&self) -> (r: Value)
//@ end
//@ item crates/core/src/model/value/values.rs :: impl ValueView for Value::as_scalar
//@ props C12 C06 C02
//@ sig fn as_scalar(&self) -> (r: Option<ScalarCow>)
//@ end
//@ item crates/core/src/model/value/values.rs :: impl ValueView for Value::as_array
//@ props C12 C06 C02
//@ sig fn as_array(&self) -> (r: Option<&dyn ArrayView>)
//@ end
//@ item crates/core/src/model/value/values.rs :: impl ValueView for Value::as_object
//@ props C12 C06 C02
//@ sig fn as_object(&self) -> (r: Option<&dyn ObjectView>)
//@ end
//@ item crates/core/src/model/value/values.rs :: impl ValueView for Value::as_state
//@ props C12 C06 C02
//@ sig fn as_state(&self) -> (r: Option<State>)
//@ end
//@ item crates/core/src/model/value/values.rs :: impl ValueView for Value::is_nil
//@ props C12 C06 C02
//@ sig fn is_nil(&self) -> (r: bool)
//@ end
}
/// what a Value is as a view: its payload, or itself when it is nil
pub open spec fn value_view(v: &Value) -> &dyn ValueView {
    match v { Value::Scalar(x) => as_dyn::<Scalar>(x), Value::Object(x) => as_dyn::<Object>(x), Value::Array(x) => as_dyn::<Array>(x), Value::State(x) => as_dyn::<State>(x), Value::Nil => as_dyn::<Value>(v) }
}
impl Value {
    #[verifier::external_body]
    pub fn default_nil() -> Value { unimplemented!() }
//@ item crates/core/src/model/value/values.rs :: impl Value::as_view
//@ props C12 C02
//@ sig pub fn as_view(&self) -> (r: &dyn ValueView)
//@ spec
    ensures r == value_view(self),                                                    // [C12:a_value_views_its_payload]
//@ end
}
/// `static NIL: Value = Value::Nil;`
pub open spec fn nil_static() -> Value { Value::Nil }
pub exec static NIL: Value ensures NIL == nil_static() { Value::Nil }

// ---------------- Option<T>: "a missing value is nil, a present one is itself" ----------------
/// what an Option stands for as a view
pub open spec fn opt_view<T: ValueView>(o: &Option<T>) -> &dyn ValueView {
    match o { Some(x) => as_dyn::<T>(x), None => as_dyn::<Value>(&nil_static()) }
}
//@ item crates/core/src/model/value/view.rs :: fn forward
//@ props C12 C02
//@ sig fn forward<T: ValueView>(o: &Option<T>) -> (r: &dyn ValueView)
//@ spec
    ensures r == opt_view(o),                                   // [C12:option_forwards_to_its_content_or_nil]
//@ editall << as &dyn ValueView>> => <<>> why: Verus does not support the explicit unsizing cast; the coercion happens implicitly at the same place (closure result / argument of unwrap_or)
//@ closure 0 arg_of=map params=v
|v: &T| -> (d: &dyn ValueView) ensures d == as_dyn::<T>(v)
//@ end

impl<T: ValueView> ValueView for Option<T> {
    // every answer of Option<T> is defined as the answer of what it stands for: the obligations below say the real
    // bodies give exactly that answer                                                  [C12:option_views_agree]
    open spec fn render_of(&self) -> DisplayCow { opt_view(self).render_of() }
    open spec fn source_of(&self) -> DisplayCow { opt_view(self).source_of() }
    open spec fn type_name_of(&self) -> &'static str { opt_view(self).type_name_of() }
    open spec fn state_of(&self, state: State) -> bool { opt_view(self).state_of(state) }
    open spec fn kstr_of(&self) -> KStringCow { opt_view(self).kstr_of() }
    open spec fn value_of(&self) -> Value { opt_view(self).value_of() }
    open spec fn scalar_of(&self) -> Option<ScalarCow> { opt_view(self).scalar_of() }
    open spec fn array_of(&self) -> Option<&dyn ArrayView> { opt_view(self).array_of() }
    open spec fn object_of(&self) -> Option<&dyn ObjectView> { opt_view(self).object_of() }
    open spec fn as_state_of(&self) -> Option<State> { opt_view(self).as_state_of() }
    open spec fn nil_of(&self) -> bool { opt_view(self).nil_of() }
//@ item crates/core/src/model/value/view.rs :: impl ValueView for Option<T>::render
//@ props C12 C02
//@ sig fn render(&self) -> (r: DisplayCow)
//@ end
//@ item crates/core/src/model/value/view.rs :: impl ValueView for Option<T>::source
//@ props C12 C02
//@ sig fn source(&self) -> (r: DisplayCow)
//@ end
//@ item crates/core/src/model/value/view.rs :: impl ValueView for Option<T>::type_name
//@ props C12 C02
//@ sig fn type_name(&self) -> (r: &'static str)
//@ end
//@ item crates/core/src/model/value/view.rs :: impl ValueView for Option<T>::query_state
//@ props C12 C02
//@ sig fn query_state(&self, state: State) -> (r: bool)
//@ end
//@ item crates/core/src/model/value/view.rs :: impl ValueView for Option<T>::to_kstr
//@ props C12 C02
//@ sig fn to_kstr(&self) -> (r: KStringCow)
//@ end
//@ item crates/core/src/model/value/view.rs :: impl ValueView for Option<T>::to_value
//@ props C12 C02
//@ sig fn to_value(&self) -> (r: Value)
//@ end
//@ item crates/core/src/model/value/view.rs :: impl ValueView for Option<T>::as_scalar
//@ props C12 C02
//@ sig fn as_scalar(&self) -> (r: Option<ScalarCow>)
//@ end
//@ item crates/core/src/model/value/view.rs :: impl ValueView for Option<T>::as_array
//@ props C12 C02
//@ sig fn as_array(&self) -> (r: Option<&dyn ArrayView>)
//@ end
//@ item crates/core/src/model/value/view.rs :: impl ValueView for Option<T>::as_object
//@ props C12 C02
//@ sig fn as_object(&self) -> (r: Option<&dyn ObjectView>)
//@ end
//@ item crates/core/src/model/value/view.rs :: impl ValueView for Option<T>::as_state
//@ props C12 C02
//@ sig fn as_state(&self) -> (r: Option<State>)
//@ end
//@ item crates/core/src/model/value/view.rs :: impl ValueView for Option<T>::is_nil
//@ props C12 C02
//@ sig fn is_nil(&self) -> (r: bool)
//@ end
}

// ---------------- &V: a reference answers as its referent ----------------
impl<V: ValueView + ?Sized> ValueView for &V {
    open spec fn render_of(&self) -> DisplayCow { (**self).render_of() }
    open spec fn source_of(&self) -> DisplayCow { (**self).source_of() }
    open spec fn type_name_of(&self) -> &'static str { (**self).type_name_of() }
    open spec fn state_of(&self, state: State) -> bool { (**self).state_of(state) }
    open spec fn kstr_of(&self) -> KStringCow { (**self).kstr_of() }
    open spec fn value_of(&self) -> Value { (**self).value_of() }
    open spec fn scalar_of(&self) -> Option<ScalarCow> { (**self).scalar_of() }
    open spec fn array_of(&self) -> Option<&dyn ArrayView> { (**self).array_of() }
    open spec fn object_of(&self) -> Option<&dyn ObjectView> { (**self).object_of() }
    open spec fn as_state_of(&self) -> Option<State> { (**self).as_state_of() }
    open spec fn nil_of(&self) -> bool { (**self).nil_of() }
//@ item crates/core/src/model/value/view.rs :: impl ValueView for &V::render
//@ props C12 C02
//@ sig fn render(&self) -> (r: DisplayCow)
//@ end
//@ item crates/core/src/model/value/view.rs :: impl ValueView for &V::source
//@ props C12 C02
//@ sig fn source(&self) -> (r: DisplayCow)
//@ end
//@ item crates/core/src/model/value/view.rs :: impl ValueView for &V::type_name
//@ props C12 C02
//@ sig fn type_name(&self) -> (r: &'static str)
//@ end
//@ item crates/core/src/model/value/view.rs :: impl ValueView for &V::query_state
//@ props C12 C02
//@ sig fn query_state(&self, state: State) -> (r: bool)
//@ end
//@ item crates/core/src/model/value/view.rs :: impl ValueView for &V::to_kstr
//@ props C12 C02
//@ sig fn to_kstr(&self) -> (r: KStringCow)
//@ end
//@ item crates/core/src/model/value/view.rs :: impl ValueView for &V::to_value
//@ props C12 C02
//@ sig fn to_value(&self) -> (r: Value)
//@ end
//@ item crates/core/src/model/value/view.rs :: impl ValueView for &V::as_scalar
//@ props C12 C02
//@ sig fn as_scalar(&self) -> (r: Option<ScalarCow>)
//@ end
//@ item crates/core/src/model/value/view.rs :: impl ValueView for &V::as_array
//@ props C12 C02
//@ sig fn as_array(&self) -> (r: Option<&dyn ArrayView>)
//@ end
//@ item crates/core/src/model/value/view.rs :: impl ValueView for &V::as_object
//@ props C12 C02
//@ sig fn as_object(&self) -> (r: Option<&dyn ObjectView>)
//@ end
//@ item crates/core/src/model/value/view.rs :: impl ValueView for &V::as_state
//@ props C12 C02
//@ sig fn as_state(&self) -> (r: Option<State>)
//@ end
//@ item crates/core/src/model/value/view.rs :: impl ValueView for &V::is_nil
//@ props C12 C02
//@ sig fn is_nil(&self) -> (r: bool)
//@ end
}

// ---------------- ValueCow: owned or borrowed, the same value ----------------
//@ item crates/core/src/model/value/cow.rs :: enum ValueCow
//@ kind enum
//@ vis pub
//@ end
/// what a ValueCow stands for as a view
pub open spec fn cow_view<'a, 's>(c: &'a ValueCow<'s>) -> &'a dyn ValueView {
    match c { ValueCow::Owned(o) => value_view(o), ValueCow::Borrowed(b) => *b }
}
impl<'s> ValueCow<'s> {
//@ item crates/core/src/model/value/cow.rs :: impl ValueCow<'_>::into_owned
//@ props C12 C02
//@ sig pub fn into_owned(self) -> (r: Value)
//@ spec
    ensures
        self matches ValueCow::Owned(x) ==> r == x,                                   // [C12:owning_an_owned_value_is_the_identity]
        self matches ValueCow::Borrowed(b) ==> r == b.value_of(),                     // [C12:owning_a_borrowed_value_is_its_to_value]
//@ end
//@ item crates/core/src/model/value/cow.rs :: impl ValueCow<'_>::as_view
//@ props C12 C02
//@ sig pub fn as_view(&self) -> (r: &dyn ValueView)
//@ spec
    ensures r == cow_view(self),                                                      // [C12:cow_views_the_value_it_holds]
//@ end
}
impl<'s> ValueView for ValueCow<'s> {
    open spec fn render_of(&self) -> DisplayCow { cow_view(self).render_of() }
    open spec fn source_of(&self) -> DisplayCow { cow_view(self).source_of() }
    open spec fn type_name_of(&self) -> &'static str { cow_view(self).type_name_of() }
    open spec fn state_of(&self, state: State) -> bool { cow_view(self).state_of(state) }
    open spec fn kstr_of(&self) -> KStringCow { cow_view(self).kstr_of() }
    open spec fn value_of(&self) -> Value { cow_view(self).value_of() }
    open spec fn scalar_of(&self) -> Option<ScalarCow> { cow_view(self).scalar_of() }
    open spec fn array_of(&self) -> Option<&dyn ArrayView> { cow_view(self).array_of() }
    open spec fn object_of(&self) -> Option<&dyn ObjectView> { cow_view(self).object_of() }
    open spec fn as_state_of(&self) -> Option<State> { cow_view(self).as_state_of() }
    open spec fn nil_of(&self) -> bool { cow_view(self).nil_of() }
//@ item crates/core/src/model/value/cow.rs :: impl ValueView for ValueCow<'_>::render
//@ props C12 C02
//@ sig fn render(&self) -> (r: DisplayCow)
//@ end
//@ item crates/core/src/model/value/cow.rs :: impl ValueView for ValueCow<'_>::source
//@ props C12 C02
//@ sig fn source(&self) -> (r: DisplayCow)
//@ end
//@ item crates/core/src/model/value/cow.rs :: impl ValueView for ValueCow<'_>::type_name
//@ props C12 C02
//@ sig fn type_name(&self) -> (r: &'static str)
//@ end
//@ item crates/core/src/model/value/cow.rs :: impl ValueView for ValueCow<'_>::query_state
//@ props C12 C02
//@ sig fn query_state(&self, state: State) -> (r: bool)
//@ end
//@ item crates/core/src/model/value/cow.rs :: impl ValueView for ValueCow<'_>::to_kstr
//@ props C12 C02
//@ sig fn to_kstr(&self) -> (r: KStringCow)
//@ end
//@ item crates/core/src/model/value/cow.rs :: impl ValueView for ValueCow<'_>::to_value
//@ props C12 C02
//@ sig fn to_value(&self) -> (r: Value)
//@ end
//@ item crates/core/src/model/value/cow.rs :: impl ValueView for ValueCow<'_>::as_scalar
//@ props C12 C02
//@ sig fn as_scalar(&self) -> (r: Option<ScalarCow>)
//@ end
//@ item crates/core/src/model/value/cow.rs :: impl ValueView for ValueCow<'_>::as_array
//@ props C12 C02
//@ sig fn as_array(&self) -> (r: Option<&dyn ArrayView>)
//@ end
//@ item crates/core/src/model/value/cow.rs :: impl ValueView for ValueCow<'_>::as_object
//@ props C12 C02
//@ sig fn as_object(&self) -> (r: Option<&dyn ObjectView>)
//@ end
//@ item crates/core/src/model/value/cow.rs :: impl ValueView for ValueCow<'_>::as_state
//@ props C12 C02
//@ sig fn as_state(&self) -> (r: Option<State>)
//@ end
//@ item crates/core/src/model/value/cow.rs :: impl ValueView for ValueCow<'_>::is_nil
//@ props C12 C02
//@ sig fn is_nil(&self) -> (r: bool)
//@ end
}

// ---------------- ValueViewCmp: comparison operators are the value model's equality and ordering ----------------
/// the value model's equality / ordering on views (bodies: value_eq / value_cmp - iterator chains over dyn views, out of
/// reach; their scalar layer is under Kani, C11)
pub uninterp spec fn value_eq_spec(lhs: &dyn ValueView, rhs: &dyn ValueView) -> bool;
pub uninterp spec fn value_cmp_spec(lhs: &dyn ValueView, rhs: &dyn ValueView) -> Option<core::cmp::Ordering>;
#[verifier::external_body]
pub fn value_eq(lhs: &dyn ValueView, rhs: &dyn ValueView) -> (r: bool) ensures r == value_eq_spec(lhs, rhs) { unimplemented!() }
#[verifier::external_body]
pub fn value_cmp(lhs: &dyn ValueView, rhs: &dyn ValueView) -> (r: Option<core::cmp::Ordering>) ensures r == value_cmp_spec(lhs, rhs) { unimplemented!() }
//@ item crates/core/src/model/value/view.rs :: struct ValueViewCmp
//@ kind struct
//@ vis pub
//@ end
impl<'v> ValueViewCmp<'v> {
//@ item crates/core/src/model/value/view.rs :: impl ValueViewCmp<'_>::new
//@ props C06 C11 C02
//@ sig pub fn new(v: &'v dyn ValueView) -> (r: ValueViewCmp<'v>)
//@ spec
    ensures r.0 == v,                                                                 // [C06:comparison_wrapper_holds_the_operand]
//@ end
}
impl<'v> vstd::std_specs::cmp::PartialEqSpecImpl<ValueViewCmp<'v>> for ValueViewCmp<'v> {
    open spec fn obeys_eq_spec() -> bool { true }
    open spec fn eq_spec(&self, other: &ValueViewCmp<'v>) -> bool { value_eq_spec(self.0, other.0) }
}
impl<'v> vstd::std_specs::cmp::PartialOrdSpecImpl<ValueViewCmp<'v>> for ValueViewCmp<'v> {
    open spec fn obeys_partial_cmp_spec() -> bool { true }
    open spec fn partial_cmp_spec(&self, other: &ValueViewCmp<'v>) -> Option<core::cmp::Ordering> { value_cmp_spec(self.0, other.0) }
}
impl<'v> PartialEq<ValueViewCmp<'v>> for ValueViewCmp<'v> {
//@ item crates/core/src/model/value/view.rs :: impl PartialEq<ValueViewCmp<'v>> for ValueViewCmp<'v>::eq
//@ props C06 C11 C02
//@ sig fn eq(&self, other: &Self) -> (r: bool)
//@ spec
    ensures r == value_eq_spec(self.0, other.0),                                      // [C06:equality_operator_is_the_value_models_equality]
//@ end
}
impl<'v> PartialOrd<ValueViewCmp<'v>> for ValueViewCmp<'v> {
//@ item crates/core/src/model/value/view.rs :: impl PartialOrd<ValueViewCmp<'v>> for ValueViewCmp<'v>::partial_cmp
//@ props C06 C11 C02
//@ sig fn partial_cmp(&self, other: &Self) -> (r: Option<core::cmp::Ordering>)
//@ spec
    ensures r == value_cmp_spec(self.0, other.0),                                     // [C06:ordering_operators_are_the_value_models_ordering]
//@ end
}
} // verus!
fn main() {}

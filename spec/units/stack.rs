//@ unit stack
//@ serves C18 C04 C08 C09 C07 C02
//@ include prelude/header.rs
verus! {
//@ include prelude/error.rs
/// `unreachable!` inside an extracted body is an obligation: it must be unreachable (requires false)
#[verifier::external_body]
pub fn must_not_panic() -> ! requires false { unimplemented!() }
}
macro_rules! unreachable { ($($t:tt)*) => { crate::must_not_panic() } }
verus! {

// ---------------- assumed environment of runtime/stack.rs (stand-ins; every contract here is trusted) ----------------
impl Error {
    #[verifier::external_body]
    pub fn with_msg(msg: &'static str) -> Error { unimplemented!() }
    #[verifier::external_body]
    pub fn context<K, V>(self, key: K, value: V) -> Error { unimplemented!() }
}
pub type Key = Seq<char>;
/// abstract identity of a value
#[verifier::external_body]
pub struct VId { _p: u8 }

#[verifier::external_body]
pub struct KStringCow { _p: u8 }
impl KStringCow {
    pub uninterp spec fn view(&self) -> Key;
    #[verifier::external_body]
    pub fn as_str(&self) -> (r: &str) ensures r@ == self.view() { unimplemented!() }
}
#[verifier::external_body]
pub struct ScalarCow { _p: u8 }
impl ScalarCow {
    pub uninterp spec fn key(&self) -> Key;
    #[verifier::external_body]
    pub fn to_kstr(&self) -> (r: KStringCow) ensures r.view() == self.key() { unimplemented!() }
}
pub open spec fn path_keys(p: Seq<ScalarCow>) -> Seq<Key> { p.map_values(|s: ScalarCow| s.key()) }
#[verifier::external_body]
pub struct Value { _p: u8 }
impl Value { pub uninterp spec fn vid(&self) -> VId; }
#[verifier::external_body]
pub struct ValueCow { _p: u8 }
impl ValueCow {
    pub uninterp spec fn vid(&self) -> VId;
    #[verifier::external_body]
    pub fn into_owned(self) -> (r: Value) ensures r.vid() == self.vid() { unimplemented!() }
}
impl From<Value> for ValueCow {
    #[verifier::external_body]
    fn from(v: Value) -> (r: ValueCow) ensures r.vid() == v.vid() { unimplemented!() }
}
pub trait ValueView { fn to_value(&self) -> Value; }

/// set of root names (stand-in for BTreeSet<KStringCow>)
#[verifier::external_body]
pub struct RootSet { _p: u8 }
#[verifier::external_body]
pub struct KeyIter { _p: u8 }
impl KeyIter { pub uninterp spec fn keys(&self) -> Set<Key>; }
/// `Object::keys()` yields &KString; `.map(|k| k.clone().into())` turns them into KStringCow with the same text
#[verifier::external_body]
pub struct KStr { _p: u8 }
impl KStr { pub uninterp spec fn view(&self) -> Key; }
impl Clone for KStr {
    #[verifier::external_body]
    fn clone(&self) -> (r: KStr) ensures r.view() == self.view() { unimplemented!() }
}
impl From<KStr> for KStringCow {
    #[verifier::external_body]
    fn from(k: KStr) -> (r: KStringCow) ensures r.view() == k.view() { unimplemented!() }
}
#[verifier::external_body]
pub struct ObjKeyIter { _p: u8 }
impl ObjKeyIter {
    pub uninterp spec fn keys(&self) -> Set<Key>;
    #[verifier::external_body]
    pub fn map<F: Fn(&KStr) -> KStringCow>(self, f: F) -> (r: KeyIter)
        requires forall|k: &KStr| f.requires((k,)),
                 forall|k: &KStr, c: KStringCow| f.ensures((k,), c) ==> c.view() == k.view(),
        ensures r.keys() == self.keys()
    { unimplemented!() }
}
impl RootSet {
    pub uninterp spec fn view(&self) -> Set<Key>;
    #[verifier::external_body]
    pub fn new() -> (r: RootSet) ensures r@ == Set::<Key>::empty() { unimplemented!() }
    #[verifier::external_body]
    pub fn extend(&mut self, it: KeyIter) ensures final(self)@ == old(self)@.union(it.keys()) { unimplemented!() }
}

/// An object as the frames see it: its key set and an abstract nested lookup `find_spec` (= model::try_find on it).
/// Law assumed of every ObjectView: get(k).is_some() <=> contains_key(k) <=> k in keys().
pub trait ObjectView {
    spec fn dom(&self) -> Set<Key>;
    spec fn find_spec(&self, path: Seq<Key>) -> Option<VId>;
    fn contains_key(&self, index: &str) -> (r: bool) ensures r == self.dom().contains(index@);
    fn get(&self, index: &str) -> (r: Option<&dyn ValueView>) ensures r is Some == self.dom().contains(index@);
    fn keys(&self) -> (r: KeyIter) ensures r.keys() == self.dom();
    fn as_value(&self) -> (r: ObjAsValue<'_, Self>) where Self: Sized ensures r.obj == self;
}
/// `data.as_value()`: the object viewed as a value, remembering which object it is
pub struct ObjAsValue<'a, O> { pub obj: &'a O }

/// the current content of a RefCell<Object> (GlobalFrame / IndexFrame): reads see `now()`; writes are not modelled
#[verifier::external_body]
pub struct Object { _p: u8 }
impl Object {
    #[verifier::external_body]
    pub fn keys(&self) -> (r: ObjKeyIter) ensures r.keys() == self.dom() { unimplemented!() }
}
impl ObjectView for Object {
    uninterp spec fn dom(&self) -> Set<Key>;
    uninterp spec fn find_spec(&self, path: Seq<Key>) -> Option<VId>;
    #[verifier::external_body]
    fn contains_key(&self, index: &str) -> (r: bool) { unimplemented!() }
    #[verifier::external_body]
    fn get(&self, index: &str) -> (r: Option<&dyn ValueView>) { unimplemented!() }
    #[verifier::external_body]
    fn keys(&self) -> (r: KeyIter) { unimplemented!() }
    #[verifier::external_body]
    fn as_value(&self) -> (r: ObjAsValue<'_, Self>) { unimplemented!() }
}
#[verifier::external_body]
pub struct ObjectCell { _p: u8 }
impl Default for ObjectCell {
    /// a fresh RefCell<Object>: no names
    #[verifier::external_body]
    fn default() -> (r: ObjectCell) ensures r.now().dom() == Set::<Key>::empty() { unimplemented!() }
}
impl Default for Registers {
    #[verifier::external_body]
    fn default() -> (r: Registers) { unimplemented!() }
}
/// which RefCell a write lands in / an answer comes from: `cell_swap(c, n)` is what cell c hands back when name n is
/// (re)bound in it - an uninterpreted tag, so that "the answer of the write is the answer of THAT cell" pins the target
pub uninterp spec fn cell_swap(cell: int, name: Key) -> Option<Value>;
pub uninterp spec fn cell_has(cell: int, name: Key) -> bool;
#[verifier::external_body]
pub struct ObjGuard { _p: u8 }
impl ObjGuard {
    pub uninterp spec fn cell(&self) -> int;
    /// RefMut<Object>::insert (through DerefMut): rebinding in the borrowed cell
    #[verifier::external_body]
    pub fn insert(&mut self, name: KString, val: Value) -> (r: Option<Value>)
        ensures r == cell_swap(old(self).cell(), name.view()), final(self).cell() == old(self).cell()
    { unimplemented!() }
}
impl ObjectCell {
    pub uninterp spec fn now(&self) -> Object;
    pub uninterp spec fn id(&self) -> int;
    #[verifier::external_body]
    pub fn borrow(&self) -> (r: &Object) ensures *r == self.now(), forall|n: Key| #[trigger] r.dom().contains(n) == cell_has(self.id(), n) { unimplemented!() }
    #[verifier::external_body]
    pub fn borrow_mut(&self) -> (r: ObjGuard) ensures r.cell() == self.id() { unimplemented!() }
}

pub mod model {
    pub use super::*;
    /// model::try_find(obj.as_value(), path): nested lookup starting at the object; agrees with find_spec (assumed)
    #[verifier::external_body]
    pub fn try_find<O: ObjectView>(value: ObjAsValue<'_, O>, path: &[ScalarCow]) -> (r: Option<ValueCow>)
        ensures
            r matches Some(v) ==> value.obj.find_spec(path_keys(path@)) == Some(v.vid()),
            r is None ==> value.obj.find_spec(path_keys(path@)) is None,
    { unimplemented!() }
    /// model::find: Ok exactly when try_find is Some, with the same value (the real body is under contract in unit `find`;
    /// here the object-level abstraction of that contract, with its precondition)
    #[verifier::external_body]
    pub fn find<O: ObjectView>(value: ObjAsValue<'_, O>, path: &[ScalarCow]) -> (r: Result<ValueCow>)
        // find() PANICS when not even the first step resolves (unit `find` proves: only then); every layer must ask
        // its own map for the root name first                                                     // [C02:find_is_only_called_on_a_defined_root]
        requires path@.len() >= 1, value.obj.dom().contains(path_keys(path@)[0]),
        ensures
            r matches Ok(v) ==> value.obj.find_spec(path_keys(path@)) == Some(v.vid()),
            r is Err ==> value.obj.find_spec(path_keys(path@)) is None,
    { unimplemented!() }
}

#[verifier::external_body]
pub struct Registers { _p: u8 }

// ---------------- the Runtime contract every layer must meet (C18) ----------------
/// lookup(path): what the runtime answers for a variable path (None = does not resolve)
/// root_set(): the names roots() lists
pub trait Runtime {
    spec fn lookup(&self, path: Seq<Key>) -> Option<VId>;
    spec fn root_set(&self) -> Set<Key>;
    fn roots(&self) -> (r: RootSet)
        ensures r@ == self.root_set();                                                            // [C18:roots_is_root_set]
    fn try_get(&self, path: &[ScalarCow]) -> (r: Option<ValueCow>)
        ensures
            r matches Some(v) ==> self.lookup(path_keys(path@)) == Some(v.vid()),                 // [C18:try_get_is_lookup]
            r is None ==> self.lookup(path_keys(path@)) is None;                                  // [C18:try_get_none_iff_unresolved]
    fn get(&self, path: &[ScalarCow]) -> (r: Result<ValueCow>)
        ensures
            r matches Ok(v) ==> self.lookup(path_keys(path@)) == Some(v.vid()),                   // [C18:get_agrees_with_try_get]
            r is Err ==> self.lookup(path_keys(path@)) is None;                                   // [C18:get_fails_iff_try_get_none]
    /// the RefCell of the nearest layer that captures global assignments / that holds the counters (None: there is none
    /// below this layer - the base case of RuntimeCore, which `unreachable!`s)
    spec fn global_cell(&self) -> Option<int>;
    spec fn index_cell(&self) -> Option<int>;
    fn set_global(&self, name: KString, val: Value) -> (r: Option<Value>)
        requires self.global_cell() is Some,                                                      // [C18:set_global_needs_a_global_layer]
        ensures r == cell_swap(self.global_cell()->0, name.view());                               // [C04:assignment_lands_in_the_nearest_global_layer]
    fn set_index(&self, name: KString, val: Value) -> (r: Option<Value>)
        requires self.index_cell() is Some,                                                       // [C18:set_index_needs_a_counter_layer]
        ensures r == cell_swap(self.index_cell()->0, name.view());                                // [C04:counters_land_in_the_counter_layer]
    fn get_index(&self, name: &str) -> (r: Option<ValueCow>)
        ensures self.index_cell() matches Some(c) ==> (r is Some) == cell_has(c, name@),          // [C04:counters_are_read_from_the_counter_layer]
                self.index_cell() is None ==> r is None;
    fn registers(&self) -> &Registers;
}

pub mod runtime_mod { use super::*; use super as crate_root;
// (module so that the bodies' `super::Registers` paths resolve as they do in runtime/stack.rs)

//@ item crates/core/src/runtime/stack.rs :: struct StackFrame
//@ kind struct
//@ vis pub
//@ end
//@ item crates/core/src/runtime/stack.rs :: struct SandboxedStackFrame
//@ kind struct
//@ vis pub
//@ end
pub struct GlobalFrame<P> { pub parent: P, pub data: ObjectCell }
pub struct IndexFrame<P> { pub parent: P, pub data: ObjectCell }

/// "answers for the names it defines and is transparent for every other name"
pub open spec fn layer_lookup<O: ObjectView>(data: &O, parent_answer: Option<VId>, path: Seq<Key>) -> Option<VId> {
    if path.len() == 0 { None }
    else if data.dom().contains(path[0]) { data.find_spec(path) }
    else { parent_answer }
}

impl<P: Runtime, O: ObjectView> Runtime for StackFrame<P, O> {
    open spec fn lookup(&self, path: Seq<Key>) -> Option<VId> {
        layer_lookup(&self.data, self.parent.lookup(path), path)
    }
    open spec fn root_set(&self) -> Set<Key> { self.parent.root_set().union(self.data.dom()) }
    open spec fn global_cell(&self) -> Option<int> { self.parent.global_cell() }
    open spec fn index_cell(&self) -> Option<int> { self.parent.index_cell() }
//@ item crates/core/src/runtime/stack.rs :: impl super::Runtime for StackFrame<P,O>::roots
//@ props C18
//@ sig fn roots(&self) -> (r: RootSet)
//@ end
//@ item crates/core/src/runtime/stack.rs :: impl super::Runtime for StackFrame<P,O>::try_get
//@ props C18 C04 C02 C07
//@ sig fn try_get(&self, path: &[ScalarCow]) -> (r: Option<ValueCow>)
//@ end
//@ item crates/core/src/runtime/stack.rs :: impl super::Runtime for StackFrame<P,O>::get
//@ props C18 C04 C02 C07
//@ sig fn get(&self, path: &[ScalarCow]) -> (r: Result<ValueCow>)
//@ closure 0 arg_of=ok_or_else params=
|| -> (e: Error)
//@ closure 1 arg_of=map params=v
|v: ValueCow| -> (r: ValueCow) ensures r.vid() == v.vid()
//@ end
//@ item crates/core/src/runtime/stack.rs :: impl super::Runtime for StackFrame<P,O>::set_global
//@ props C18
//@ sig fn set_global(&self, name: KString, val: Value) -> (r: Option<Value>)
//@ end
//@ item crates/core/src/runtime/stack.rs :: impl super::Runtime for StackFrame<P,O>::set_index
//@ props C18
//@ sig fn set_index(&self, name: KString, val: Value) -> (r: Option<Value>)
//@ end
//@ item crates/core/src/runtime/stack.rs :: impl super::Runtime for StackFrame<P,O>::get_index
//@ props C18
//@ sig fn get_index(&self, name: &str) -> (r: Option<ValueCow>)
//@ end
//@ item crates/core/src/runtime/stack.rs :: impl super::Runtime for StackFrame<P,O>::registers
//@ props C18
//@ sig fn registers(&self) -> (r: &Registers)
//@ end
}

// ---- GlobalFrame / IndexFrame: the same shape over the *current* content of their RefCell (reads only) ----
impl<P: Runtime> Runtime for GlobalFrame<P> {
    open spec fn lookup(&self, path: Seq<Key>) -> Option<VId> {
        layer_lookup(&self.data.now(), self.parent.lookup(path), path)
    }
    open spec fn root_set(&self) -> Set<Key> { self.parent.root_set().union(self.data.now().dom()) }
    open spec fn global_cell(&self) -> Option<int> { Some(self.data.id()) }
    open spec fn index_cell(&self) -> Option<int> { self.parent.index_cell() }
//@ item crates/core/src/runtime/stack.rs :: impl super::Runtime for GlobalFrame<P>::set_global
//@ props C18 C04
//@ sig fn set_global(&self, name: KString, val: Value) -> (r: Option<Value>)
//@ end
//@ item crates/core/src/runtime/stack.rs :: impl super::Runtime for GlobalFrame<P>::roots
//@ props C18
//@ sig fn roots(&self) -> (r: RootSet)
//@ closure 0 arg_of=map params=k
|k: &KStr| -> (c: KStringCow) ensures c.view() == k.view()
//@ end
//@ item crates/core/src/runtime/stack.rs :: impl super::Runtime for GlobalFrame<P>::try_get
//@ props C18 C04 C02 C07
//@ sig fn try_get(&self, path: &[ScalarCow]) -> (r: Option<ValueCow>)
//@ closure 0 arg_of=map params=v
|v: ValueCow| -> (r: ValueCow) ensures r.vid() == v.vid()
//@ end
//@ item crates/core/src/runtime/stack.rs :: impl super::Runtime for GlobalFrame<P>::get
//@ props C18 C04 C02 C07
//@ sig fn get(&self, path: &[ScalarCow]) -> (r: Result<ValueCow>)
//@ closure 0 arg_of=ok_or_else params=
|| -> (e: Error)
//@ closure 1 arg_of=map params=v
|v: ValueCow| -> (r: ValueCow) ensures r.vid() == v.vid()
//@ end
//@ item crates/core/src/runtime/stack.rs :: impl super::Runtime for GlobalFrame<P>::set_index
//@ props C18
//@ sig fn set_index(&self, name: KString, val: Value) -> (r: Option<Value>)
//@ end
//@ item crates/core/src/runtime/stack.rs :: impl super::Runtime for GlobalFrame<P>::get_index
//@ props C18
//@ sig fn get_index(&self, name: &str) -> (r: Option<ValueCow>)
//@ end
//@ item crates/core/src/runtime/stack.rs :: impl super::Runtime for GlobalFrame<P>::registers
//@ props C18
//@ sig fn registers(&self) -> (r: &Registers)
//@ end
}

impl<P: Runtime> Runtime for IndexFrame<P> {
    open spec fn lookup(&self, path: Seq<Key>) -> Option<VId> {
        layer_lookup(&self.data.now(), self.parent.lookup(path), path)
    }
    open spec fn root_set(&self) -> Set<Key> { self.parent.root_set().union(self.data.now().dom()) }
    open spec fn global_cell(&self) -> Option<int> { self.parent.global_cell() }
    open spec fn index_cell(&self) -> Option<int> { Some(self.data.id()) }
//@ item crates/core/src/runtime/stack.rs :: impl super::Runtime for IndexFrame<P>::set_index
//@ props C18 C04
//@ sig fn set_index(&self, name: KString, val: Value) -> (r: Option<Value>)
//@ end
//@ item crates/core/src/runtime/stack.rs :: impl super::Runtime for IndexFrame<P>::get_index
//@ props C18 C04
//@ sig fn get_index(&self, name: &str) -> (r: Option<ValueCow>)
//@ closure 0 arg_of=map params=v
|v: &dyn ValueView| -> (c: ValueCow)
//@ end
//@ item crates/core/src/runtime/stack.rs :: impl super::Runtime for IndexFrame<P>::roots
//@ props C18
//@ sig fn roots(&self) -> (r: RootSet)
//@ closure 0 arg_of=map params=k
|k: &KStr| -> (c: KStringCow) ensures c.view() == k.view()
//@ end
//@ item crates/core/src/runtime/stack.rs :: impl super::Runtime for IndexFrame<P>::try_get
//@ props C18 C04 C02 C07
//@ sig fn try_get(&self, path: &[ScalarCow]) -> (r: Option<ValueCow>)
//@ closure 0 arg_of=map params=v
|v: ValueCow| -> (r: ValueCow) ensures r.vid() == v.vid()
//@ end
//@ item crates/core/src/runtime/stack.rs :: impl super::Runtime for IndexFrame<P>::get
//@ props C18 C04 C02 C07
//@ sig fn get(&self, path: &[ScalarCow]) -> (r: Result<ValueCow>)
//@ closure 0 arg_of=ok_or_else params=
|| -> (e: Error)
//@ closure 1 arg_of=map params=v
|v: ValueCow| -> (r: ValueCow) ensures r.vid() == v.vid()
//@ end
//@ item crates/core/src/runtime/stack.rs :: impl super::Runtime for IndexFrame<P>::set_global
//@ props C18
//@ sig fn set_global(&self, name: KString, val: Value) -> (r: Option<Value>)
//@ end
//@ item crates/core/src/runtime/stack.rs :: impl super::Runtime for IndexFrame<P>::registers
//@ props C18
//@ sig fn registers(&self) -> (r: &Registers)
//@ end
}

// ---- SandboxedStackFrame: "hides every outer name"; owns its registers ----
impl<P: Runtime, O: ObjectView> Runtime for SandboxedStackFrame<P, O> {
    open spec fn lookup(&self, path: Seq<Key>) -> Option<VId> {
        layer_lookup(&self.data, None, path)
    }
    open spec fn root_set(&self) -> Set<Key> { self.data.dom() }
    open spec fn global_cell(&self) -> Option<int> { self.parent.global_cell() }
    open spec fn index_cell(&self) -> Option<int> { self.parent.index_cell() }
//@ item crates/core/src/runtime/stack.rs :: impl super::Runtime for SandboxedStackFrame<P,O>::roots
//@ props C18
//@ sig fn roots(&self) -> (r: RootSet)
//@ edit <<std::collections::BTreeSet::new()>> => <<RootSet::new()>> why: BTreeSet is outside Verus; stand-in set type with the same constructor contract (empty set)
//@ end
//@ item crates/core/src/runtime/stack.rs :: impl super::Runtime for SandboxedStackFrame<P,O>::try_get
//@ props C18 C04 C02 C07
//@ sig fn try_get(&self, path: &[ScalarCow]) -> (r: Option<ValueCow>)
//@ closure 0 arg_of=and_then params=_
|_x: &dyn ValueView| -> (r: Option<ValueCow>)
    ensures r matches Some(v) ==> data.find_spec(path_keys(path@)) == Some(v.vid()),
            r is None ==> data.find_spec(path_keys(path@)) is None
//@ end
//@ item crates/core/src/runtime/stack.rs :: impl super::Runtime for SandboxedStackFrame<P,O>::get
//@ props C18 C04 C02 C07
//@ sig fn get(&self, path: &[ScalarCow]) -> (r: Result<ValueCow>)
//@ closure 0 arg_of=ok_or_else params=
|| -> (e: Error)
//@ closure 1 arg_of=and_then params=_
|_x: &dyn ValueView| -> (r: Option<ValueCow>)
    ensures r matches Some(v) ==> data.find_spec(path_keys(path@)) == Some(v.vid()),
            r is None ==> data.find_spec(path_keys(path@)) is None
//@ closure 2 arg_of=map params=v
|v: ValueCow| -> (r: ValueCow) ensures r.vid() == v.vid()
//@ closure 3 arg_of=ok_or_else params=
|| -> (e: Error)
//@ end
//@ item crates/core/src/runtime/stack.rs :: impl super::Runtime for SandboxedStackFrame<P,O>::set_global
//@ props C18
//@ sig fn set_global(&self, name: KString, val: Value) -> (r: Option<Value>)
//@ end
//@ item crates/core/src/runtime/stack.rs :: impl super::Runtime for SandboxedStackFrame<P,O>::set_index
//@ props C18
//@ sig fn set_index(&self, name: KString, val: Value) -> (r: Option<Value>)
//@ end
//@ item crates/core/src/runtime/stack.rs :: impl super::Runtime for SandboxedStackFrame<P,O>::get_index
//@ props C18
//@ sig fn get_index(&self, name: &str) -> (r: Option<ValueCow>)
//@ end
//@ item crates/core/src/runtime/stack.rs :: impl super::Runtime for SandboxedStackFrame<P,O>::registers
//@ props C18 C08
//@ sig fn registers(&self) -> (r: &Registers)
//@ spec
    ensures r == &self.registers,          // [C18:sandbox_owns_its_registers]
//@ end
}

// ---------------- constructors, the core runtime and RuntimeBuilder::build (the order of the layers) ----------------
impl<P: Runtime, O: ObjectView> StackFrame<P, O> {
//@ item crates/core/src/runtime/stack.rs :: impl StackFrame<P,O>::new
//@ props C18 C04
//@ sig pub fn new(parent: P, data: O) -> (r: Self)
//@ spec
    ensures r.parent == parent, r.data == data,
//@ end
}
impl<P: Runtime> GlobalFrame<P> {
//@ item crates/core/src/runtime/stack.rs :: impl GlobalFrame<P>::new
//@ props C18 C04
//@ sig pub fn new(parent: P) -> (r: Self)
//@ spec
    ensures r.parent == parent, r.data.now().dom() == Set::<Key>::empty(),      // [C18:fresh_global_layer_is_empty]
//@ end
}
impl<P: Runtime> IndexFrame<P> {
//@ item crates/core/src/runtime/stack.rs :: impl IndexFrame<P>::new
//@ props C18 C04
//@ sig pub fn new(parent: P) -> (r: Self)
//@ spec
    ensures r.parent == parent, r.data.now().dom() == Set::<Key>::empty(),
//@ end
}
impl<P: Runtime, O: ObjectView> SandboxedStackFrame<P, O> {
//@ item crates/core/src/runtime/stack.rs :: impl SandboxedStackFrame<P,O>::new
//@ props C18
//@ sig pub fn new(parent: P, data: O) -> (r: Self)
//@ spec
    ensures r.parent == parent, r.data == data,
//@ end
}

/// the bottom of every stack: knows no name
pub struct RuntimeCore { pub registers: Registers }
impl Default for RuntimeCore {
    #[verifier::external_body]
    fn default() -> (r: RuntimeCore) { unimplemented!() }
}
#[verifier::external_body]
pub struct Scalar { _p: u8 }
impl Scalar {
    #[verifier::external_body]
    pub fn new(s: &str) -> ScalarCow { unimplemented!() }
}
impl Clone for ScalarCow {
    #[verifier::external_body]
    fn clone(&self) -> (r: ScalarCow) ensures r == *self { unimplemented!() }
}
impl Error {
    #[verifier::external_body]
    pub fn into_err2<T>(self) -> (r: Result<T>) ensures r is Err { unimplemented!() }
}
impl Runtime for RuntimeCore {
    open spec fn lookup(&self, path: Seq<Key>) -> Option<VId> { None }
    open spec fn root_set(&self) -> Set<Key> { Set::empty() }
    open spec fn global_cell(&self) -> Option<int> { None }
    open spec fn index_cell(&self) -> Option<int> { None }
//@ item crates/core/src/runtime/runtime.rs :: impl Runtime for RuntimeCore<'_>::roots
//@ props C18
//@ sig fn roots(&self) -> (r: RootSet)
//@ edit <<std::collections::BTreeSet::new()>> => <<RootSet::new()>> why: BTreeSet is outside Verus; stand-in set type with the same constructor contract (empty set)
//@ end
//@ item crates/core/src/runtime/runtime.rs :: impl Runtime for RuntimeCore<'_>::try_get
//@ props C18 C02
//@ sig fn try_get(&self, _path: &[ScalarCow]) -> (r: Option<ValueCow>)
//@ end
//@ item crates/core/src/runtime/runtime.rs :: impl Runtime for RuntimeCore<'_>::get
//@ props C18 C02
//@ sig fn get(&self, path: &[ScalarCow]) -> (r: Result<ValueCow>)
//@ closure 0 arg_of=unwrap_or_else params=
|| -> (s: ScalarCow)
//@ end
//@ item crates/core/src/runtime/runtime.rs :: impl Runtime for RuntimeCore<'_>::set_global
//@ props C18 C02
//@ unreachable-by-contract the trait precondition (a global / counter layer exists below) is false for the core: the body `unreachable!` is proved unreachable
//@ sig fn set_global(&self, _name: KString, _val: Value) -> (r: Option<Value>)
//@ end
//@ item crates/core/src/runtime/runtime.rs :: impl Runtime for RuntimeCore<'_>::set_index
//@ props C18 C02
//@ unreachable-by-contract the trait precondition (a global / counter layer exists below) is false for the core: the body `unreachable!` is proved unreachable
//@ sig fn set_index(&self, _name: KString, _val: Value) -> (r: Option<Value>)
//@ end
//@ item crates/core/src/runtime/runtime.rs :: impl Runtime for RuntimeCore<'_>::get_index
//@ props C18
//@ sig fn get_index(&self, _name: &str) -> (r: Option<ValueCow>)
//@ end
//@ item crates/core/src/runtime/runtime.rs :: impl Runtime for RuntimeCore<'_>::registers
//@ props C18
//@ sig fn registers(&self) -> (r: &Registers)
//@ end
}

/// the caller's data as the builder holds it (`&dyn ObjectView`, or the empty NullObject)
pub struct DataRef<'g> { pub o: &'g dyn ObjectView }
impl<'g> ObjectView for DataRef<'g> {
    open spec fn dom(&self) -> Set<Key> { self.o.dom() }
    open spec fn find_spec(&self, path: Seq<Key>) -> Option<VId> { self.o.find_spec(path) }
    #[verifier::external_body]
    fn contains_key(&self, index: &str) -> (r: bool) { unimplemented!() }
    #[verifier::external_body]
    fn get(&self, index: &str) -> (r: Option<&dyn ValueView>) { unimplemented!() }
    #[verifier::external_body]
    fn keys(&self) -> (r: KeyIter) { unimplemented!() }
    #[verifier::external_body]
    fn as_value(&self) -> (r: ObjAsValue<'_, Self>) { unimplemented!() }
}
/// the real NullObject (runtime.rs): no keys, nothing to find - what `null_object()` below wraps
pub struct NullObject;
impl ObjectView for NullObject {
    open spec fn dom(&self) -> Set<Key> { Set::<Key>::empty() }
    open spec fn find_spec(&self, path: Seq<Key>) -> Option<VId> { None }
//@ item crates/core/src/runtime/runtime.rs :: impl ObjectView for NullObject::contains_key
//@ props C04 C09 C18
//@ sig fn contains_key(&self, _index: &str) -> (r: bool)
//@ end
//@ item crates/core/src/runtime/runtime.rs :: impl ObjectView for NullObject::get
//@ props C04 C09 C18
//@ sig fn get(&self, _index: &str) -> (r: Option<&dyn ValueView>)
//@ end
    #[verifier::external_body]
    fn keys(&self) -> (r: KeyIter) { unimplemented!() }
    #[verifier::external_body]
    fn as_value(&self) -> (r: ObjAsValue<'_, Self>) { unimplemented!() }
}

/// a reference to a runtime answers as the runtime (the scope layers hold `&dyn Runtime` parents)
impl<R: Runtime + ?Sized> Runtime for &R {
    open spec fn lookup(&self, path: Seq<Key>) -> Option<VId> { (**self).lookup(path) }
    open spec fn root_set(&self) -> Set<Key> { (**self).root_set() }
    open spec fn global_cell(&self) -> Option<int> { (**self).global_cell() }
    open spec fn index_cell(&self) -> Option<int> { (**self).index_cell() }
//@ item crates/core/src/runtime/runtime.rs :: impl Runtime for &R::roots
//@ props C18 C04
//@ sig fn roots(&self) -> (r: RootSet)
//@ end
//@ item crates/core/src/runtime/runtime.rs :: impl Runtime for &R::try_get
//@ props C18 C04
//@ sig fn try_get(&self, path: &[ScalarCow]) -> (r: Option<ValueCow>)
//@ end
//@ item crates/core/src/runtime/runtime.rs :: impl Runtime for &R::get
//@ props C18 C04
//@ sig fn get(&self, path: &[ScalarCow]) -> (r: Result<ValueCow>)
//@ end
//@ item crates/core/src/runtime/runtime.rs :: impl Runtime for &R::set_global
//@ props C18
//@ sig fn set_global(&self, name: KString, val: Value) -> (r: Option<Value>)
//@ end
//@ item crates/core/src/runtime/runtime.rs :: impl Runtime for &R::set_index
//@ props C18
//@ sig fn set_index(&self, name: KString, val: Value) -> (r: Option<Value>)
//@ end
//@ item crates/core/src/runtime/runtime.rs :: impl Runtime for &R::get_index
//@ props C18
//@ sig fn get_index(&self, name: &str) -> (r: Option<ValueCow>)
//@ end
//@ item crates/core/src/runtime/runtime.rs :: impl Runtime for &R::registers
//@ props C18
//@ sig fn registers(&self) -> (r: &Registers)
//@ end
}
pub struct RuntimeBuilder<'g> { pub globals: Option<DataRef<'g>> }
/// NullObject: the empty object used when no data is given
#[verifier::external_body]
pub fn null_object<'g>() -> (r: DataRef<'g>) ensures r.dom() == Set::<Key>::empty() { unimplemented!() }
pub mod runtime_rs { use super::*;
// (module so that the body's `super::IndexFrame` ... paths resolve as they do in runtime/runtime.rs)
impl<'g> RuntimeBuilder<'g> {
//@ item crates/core/src/runtime/runtime.rs :: impl RuntimeBuilder<'g,'p>::build
//@ props C04 C18 C09
//@ sig pub fn build(self) -> (r: GlobalFrame<StackFrame<IndexFrame<RuntimeCore>, DataRef<'g>>>)
//@ spec
    ensures
        // a fresh runtime: no assigned variables, no counters; a name resolves exactly to the caller's data
        forall|path: Seq<Key>| #[trigger] r.lookup(path) == (match self.globals {
            Some(g) => if path.len() > 0 && g.dom().contains(path[0]) { g.find_spec(path) } else { None::<VId> },
            None => None::<VId> }),                                                                  // [C04:fresh_runtime_sees_only_caller_data] [C18:build_layer_order]
        r.data.now().dom() == Set::<Key>::empty(), r.parent.parent.data.now().dom() == Set::<Key>::empty(),   // [C09:every_render_starts_from_an_empty_runtime]
        self.globals matches Some(g) ==> r.parent.data == g,
        // the built runtime has a layer for assignments and one for counters: RuntimeCore's `unreachable!` base cases
        // (proved unreachable under exactly this condition) are masked
        r.global_cell() is Some, r.index_cell() is Some,                                          // [C18:builder_masks_the_unreachable_base_cases]
//@ edit <<let partials = self.partials.unwrap_or(&NullPartials);>> => <<>> why: partial store plumbing is outside this unit
//@ editre <<RuntimeCore \{\s*partials,\s*\.\.Default::default\(\)\s*\}>> => <<RuntimeCore::default()>> why: struct-update syntax over the partial store; the stand-in core has no partials field
//@ edit <<self.globals.unwrap_or(&NullObject)>> => <<self.globals.unwrap_or(null_object())>> why: NullObject (an empty ObjectView) as a stand-in constructor
//@ end
}
}

// ---------------- consequences for plugin authors (lemmas over the layer definitions; C18, C04) ----------------
/// every scope a tag can build on top of a runtime keeps its assignment and counter layers reachable: the four
/// constructors preserve `global_cell is Some` / `index_cell is Some` (so set_global / set_index never reach the core)
proof fn lemma_layers_preserve_write_targets<P: Runtime, O: ObjectView>(s: &StackFrame<P, O>, g: &GlobalFrame<P>, i: &IndexFrame<P>, b: &SandboxedStackFrame<P, O>)
    ensures
        s.parent.global_cell() is Some ==> s.global_cell() == s.parent.global_cell(),
        s.parent.index_cell() is Some ==> s.index_cell() == s.parent.index_cell(),
        g.global_cell() is Some,                                  // a global layer captures assignments itself
        g.index_cell() == g.parent.index_cell(),
        i.index_cell() is Some,
        i.global_cell() == i.parent.global_cell(),
        b.global_cell() == b.parent.global_cell(), b.index_cell() == b.parent.index_cell(),      // the sandbox hides names, not write targets
{ }

/// a scope answers for the names it defines ...
proof fn lemma_scope_shadows<P: Runtime, O: ObjectView>(f: &StackFrame<P, O>, path: Seq<Key>)
    requires path.len() > 0, f.data.dom().contains(path[0]),
    ensures f.lookup(path) == f.data.find_spec(path),                       // [C18:scope_answers_for_its_names] [C04:innermost_binding_wins]
{ }
/// ... and is transparent for every other name
proof fn lemma_scope_transparent<P: Runtime, O: ObjectView>(f: &StackFrame<P, O>, path: Seq<Key>)
    requires path.len() > 0, !f.data.dom().contains(path[0]),
    ensures f.lookup(path) == f.parent.lookup(path),                        // [C18:scope_transparent_for_other_names]
{ }
/// a sandboxed scope hides every outer name, whatever the parent answers
proof fn lemma_sandbox_opaque<P: Runtime, O: ObjectView>(f: &SandboxedStackFrame<P, O>, path: Seq<Key>)
    requires path.len() == 0 || !f.data.dom().contains(path[0]),
    ensures f.lookup(path) is None,                                         // [C18:sandbox_hides_outer_names]
{ }
/// scopes stacked on a sandbox still cannot see through it
proof fn lemma_sandbox_opaque_below_scope<P: Runtime, O: ObjectView, O2: ObjectView>(f: &StackFrame<SandboxedStackFrame<P, O>, O2>, path: Seq<Key>)
    requires path.len() > 0, !f.data.dom().contains(path[0]), !f.parent.data.dom().contains(path[0]),
    ensures f.lookup(path) is None,                                         // [C18:sandbox_hides_outer_names_at_any_depth]
{ }
/// assigned variables (global layer) shadow the caller's data, which shadows the counters: the order `build` fixes
proof fn lemma_build_order<C: Runtime, O: ObjectView>(rt: &GlobalFrame<StackFrame<IndexFrame<C>, O>>, path: Seq<Key>)
    requires path.len() > 0,
    ensures
        rt.data.now().dom().contains(path[0]) ==> rt.lookup(path) == rt.data.now().find_spec(path),                         // [C04:assigned_shadow_caller_data]
        !rt.data.now().dom().contains(path[0]) && rt.parent.data.dom().contains(path[0])
            ==> rt.lookup(path) == rt.parent.data.find_spec(path),                                                           // [C04:caller_data_shadows_counters]
        !rt.data.now().dom().contains(path[0]) && !rt.parent.data.dom().contains(path[0]) && rt.parent.parent.data.now().dom().contains(path[0])
            ==> rt.lookup(path) == rt.parent.parent.data.now().find_spec(path),                                              // [C04:counters_resolve_last]
{ }
/// a loop/include scope on top of all that shadows everything else
proof fn lemma_loop_scope_first<P: Runtime, O: ObjectView>(scope: &StackFrame<P, O>, path: Seq<Key>)
    requires path.len() > 0, scope.data.dom().contains(path[0]),
    ensures scope.lookup(path) == scope.data.find_spec(path),                // [C04:loop_and_include_scopes_shadow_everything]
{ }

} // mod
} // verus!
fn main() {}

use vstd::prelude::*;
verus! {

// ---------------- prelude ----------------
#[verifier::external_body]
pub struct Error { _p: u8 }
pub type Result<T> = core::result::Result<T, Error>;

pub type Key = Seq<char>;
#[verifier::external_body]
pub struct V { _p: u8 }                      // abstract value identity

#[verifier::external_body]
pub struct ScalarCow { _p: u8 }
impl ScalarCow {
    pub uninterp spec fn key(&self) -> Key;
    #[verifier::external_body]
    pub fn to_kstr(&self) -> (r: KStringCow) ensures r.view() == self.key() { unimplemented!() }
}
#[verifier::external_body]
pub struct KStringCow { _p: u8 }
impl KStringCow {
    pub uninterp spec fn view(&self) -> Key;
    #[verifier::external_body]
    pub fn as_str(&self) -> (r: &str) ensures r@ == self.view() { unimplemented!() }
}
#[verifier::external_body]
pub struct ValueCow { _p: u8 }
impl ValueCow { pub uninterp spec fn id(&self) -> V; }

pub open spec fn path_keys(p: Seq<ScalarCow>) -> Seq<Key> { p.map_values(|s: ScalarCow| s.key()) }

pub trait ValueView { }
pub trait ObjectView {
    spec fn map(&self) -> Map<Key, V>;
    /// abstract nested lookup below the first key
    spec fn find_spec(&self, path: Seq<Key>) -> Option<V>;
    fn contains_key(&self, index: &str) -> (r: bool) ensures r == self.map().dom().contains(index@);
    fn as_value(&self) -> (r: &dyn ValueView);
    spec fn as_value_owner(v: &dyn ValueView) -> Option<int>;
}

/// `crate::model::try_find(data.as_value(), path)` — assumed: agrees with find_spec of the object it came from
#[verifier::external_body]
pub fn try_find<'o, O: ObjectView>(data: &'o O, path: &[ScalarCow]) -> (r: Option<ValueCow>)
    ensures
        (r matches Some(v) ==> data.find_spec(path_keys(path@)) == Some(v.id())),
        (r is None ==> data.find_spec(path_keys(path@)) is None),
{ unimplemented!() }

pub trait Runtime {
    spec fn lookup(&self, path: Seq<Key>) -> Option<V>;
    fn try_get(&self, path: &[ScalarCow]) -> (r: Option<ValueCow>)
        ensures
            (r matches Some(v) ==> self.lookup(path_keys(path@)) == Some(v.id())),
            (r is None ==> self.lookup(path_keys(path@)) is None);
}

pub struct StackFrame<P, O> {
    pub parent: P,
    pub data: O,
}

// ---------------- extracted: impl Runtime for StackFrame :: try_get ----------------
impl<P: Runtime, O: ObjectView> Runtime for StackFrame<P, O> {
    open spec fn lookup(&self, path: Seq<Key>) -> Option<V> {
        if path.len() == 0 { None }
        else if self.data.map().dom().contains(path[0]) { self.data.find_spec(path) }
        else { self.parent.lookup(path) }
    }

    fn try_get(&self, path: &[ScalarCow]) -> (r: Option<ValueCow>)
    {
        let key = path.first()?;
        let key = key.to_kstr();
        let data = &self.data;
        if data.contains_key(key.as_str()) {
            try_find(data, path)
        } else {
            self.parent.try_get(path)
        }
    }
}

} // verus!
fn main() {}

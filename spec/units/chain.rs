//@ unit chain
//@ serves C13 C10 C07 C02
//@ include prelude/header.rs
verus! {
//@ include prelude/std.rs
//@ include prelude/error.rs
//@ include prelude/runtime.rs
//@ include prelude/value.rs
//@ include prelude/render.rs
//@ include prelude/expr.rs

impl ValueCow {
    /// the `ValueCow::Owned(value)` constructor (stand-in for the enum variant)
    #[verifier::external_body]
    pub fn Owned(v: Value) -> (r: ValueCow) ensures r.vid() == v.vid() { unimplemented!() }
}
/// a parsed filter: `apply` is what it maps an input value to (None: the filter fails)
pub trait Filter {
    spec fn apply(&self, input: VId, rt: &dyn Runtime) -> Option<VId>;
    fn evaluate(&self, input: &dyn ValueView, runtime: &dyn Runtime) -> (r: Result<Value>)
        ensures r matches Ok(v) ==> self.apply(input.vid_of(), runtime) == Some(v.vid()),
                r is Err ==> self.apply(input.vid_of(), runtime) is None;
}
}
//@ include prelude/render_macros.rs
verus! {
//@ item crates/core/src/parser/filter_chain.rs :: struct FilterChain
//@ kind struct
//@ end

/// "the result of a filter chain is the left-to-right composition of its filters":
/// fold(filters[from..], v) applies them in order; the first failing filter fails the chain
spec fn fold(filters: Seq<Box<dyn Filter>>, from: int, v: VId, rt: &dyn Runtime) -> Option<VId>
    decreases filters.len() - from
{
    if from < 0 || from >= filters.len() { Some(v) }
    else { match filters[from].apply(v, rt) {
        None => None,
        Some(w) => fold(filters, from + 1, w, rt),
    } }
}
impl FilterChain {
    spec fn denotes(&self, rt: &dyn Runtime) -> Option<VId> {
        match self.entry.denotes(rt) { None => None, Some(v) => fold(self.filters@, 0, v, rt) }
    }
    spec fn rid(&self) -> RId;
//@ item crates/core/src/parser/filter_chain.rs :: impl FilterChain::evaluate
//@ props C13 C02
//@ sig fn evaluate(&self, runtime: &dyn Runtime) -> (r: Result<ValueCow>)
//@ spec
    ensures
        r matches Ok(v) ==> self.denotes(runtime) == Some(v.vid()),          // [C13:chain_is_left_to_right_composition]
        r is Err ==> self.denotes(runtime) is None,                          // [C13:chain_fails_iff_a_stage_fails]
//@ editre <<for (\w+) in &self\.filters>> => <<for \1 in it: &self.filters>> why: names Verus' ghost iterator so that the invariant can refer to the position
//@ loop 0 kind=for
    invariant
        0 <= it.index@ <= self.filters@.len(),
        self.entry.denotes(runtime) is Some,
        self.denotes(runtime) == fold(self.filters@, it.index@, entry.vid(), runtime),
//@ end

//@ item crates/core/src/parser/filter_chain.rs :: impl Renderable for FilterChain::render_to
//@ props C10 C02
//@ sig fn render_to(&self, writer: &mut Sink, runtime: &dyn Runtime) -> (r: Result<()>)
//@ spec
    requires !old(writer).failed@,
        runtime.writable(),                                                            // [C02:scope_has_assignment_and_counter_layers]
    ensures
        sink_safe(*old(writer), *final(writer), r),                                               // [C10:output_tag_failed_sink_is_error]
        r is Ok ==> (self.denotes(runtime) is Some && final(writer).log@ == old(writer).log@.push(Ev::Write("{}"@))),   // [C10:output_tag_writes_exactly_once]
        r is Err ==> final(writer).log@ == old(writer).log@,                                      // [C10:output_tag_error_writes_nothing]
        self.denotes(runtime) is None ==> r is Err,                                               // [C07:missing_value_is_an_error_not_blank]
//@ end
}

} // verus!
fn main() {}

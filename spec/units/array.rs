//@ unit array
//@ serves C14 C02
//@ include prelude/header.rs
use core::cmp;
verus! {
//@ include prelude/std.rs
//@ include prelude/error.rs
//@ include prelude/runtime.rs
//@ include prelude/value.rs
//@ include prelude/expr.rs

/// lower-cased sort key (stand-in for String; its order is the uninterpreted `key_cmp`)
#[verifier::external_body]
pub struct KeyStr { _p: u8 }
pub uninterp spec fn key_cmp(a: KeyStr, b: KeyStr) -> Option<cmp::Ordering>;
pub uninterp spec fn lowered(s: KStringCow) -> KeyStr;
impl PartialEq for KeyStr {
    #[verifier::external_body]
    fn eq(&self, other: &Self) -> (r: bool) ensures r == (key_cmp(*self, *other) == Some(cmp::Ordering::Equal)) { unimplemented!() }
}
impl PartialOrd for KeyStr {
    #[verifier::external_body]
    fn partial_cmp(&self, other: &Self) -> (r: Option<cmp::Ordering>) ensures r == key_cmp(*self, *other) { unimplemented!() }
}
impl KStringCow {
    #[verifier::external_body]
    pub fn to_lowercase(&self) -> (r: KeyStr) ensures r == lowered(*self) { unimplemented!() }
}
/// "sort is non-decreasing for mutually comparable elements with nil last": the comparator puts nil after everything else
//@ item crates/lib/src/stdlib/filters/array.rs :: fn nil_safe_compare
//@ props C14 C02
//@ sig fn nil_safe_compare(a: &dyn ValueView, b: &dyn ValueView) -> (r: Option<cmp::Ordering>)
//@ spec
    ensures
        (a.nil_of() && b.nil_of()) ==> r == Some(cmp::Ordering::Equal),                 // [C14:nil_equals_nil]
        (a.nil_of() && !b.nil_of()) ==> r == Some(cmp::Ordering::Greater),              // [C14:nil_sorts_last]
        (!a.nil_of() && b.nil_of()) ==> r == Some(cmp::Ordering::Less),                 // [C14:nil_sorts_last_mirrored]
        (!a.nil_of() && !b.nil_of()) ==> r == vcmp(a.vid_of(), b.vid_of()),             // [C14:otherwise_the_value_order]
//@ end

//@ item crates/lib/src/stdlib/filters/array.rs :: fn nil_safe_casecmp_key
//@ props C14 C02
//@ sig fn nil_safe_casecmp_key(value: &dyn ValueView) -> (r: Option<KeyStr>)
//@ spec
    ensures
        value.nil_of() ==> r is None,                                                     // [C14:natural_key_of_nil_is_none]
        !value.nil_of() ==> r == Some(lowered(value.kstr_of())),                          // [C14:natural_key_is_the_lowercased_text]
//@ end

//@ item crates/lib/src/stdlib/filters/array.rs :: fn nil_safe_casecmp
//@ props C14 C02
//@ sig fn nil_safe_casecmp(a: &Option<KeyStr>, b: &Option<KeyStr>) -> (r: Option<cmp::Ordering>)
//@ spec
    ensures
        (*a is None && *b is None) ==> r == Some(cmp::Ordering::Equal),
        (*a is None && *b is Some) ==> r == Some(cmp::Ordering::Greater),               // [C14:natural_sort_nil_last]
        (*a is Some && *b is None) ==> r == Some(cmp::Ordering::Less),
//@ end

} // verus!
fn main() {}
